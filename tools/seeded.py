#!/usr/bin/env python3
"""Seeded-change bookkeeping.

  tools/seeded.py add <id> <src_dir> <prop> [--tests tests/test_x.py,...]   verify & store under /verif/seeded/<id>/
  tools/seeded.py run <id>|all [--props C01,C02] [--tier quick]            run checks against a scratch copy with the patch

Verification (add): in a fresh scratch worktree of /repo HEAD: demo passes without the patch,
fails with it, and the named test files pass with it. Nothing is ever applied to /repo."""
import json, os, shutil, subprocess, sys, tempfile, time
HERE = os.path.dirname(os.path.dirname(os.path.abspath(__file__)))
SEEDED = os.path.join(HERE, "seeded")
PY = "/venv/bin/python"

def sh(cmd, cwd=None, env=None, timeout=3600):
    p = subprocess.run(cmd, cwd=cwd, env=env, capture_output=True, text=True, timeout=timeout)
    return p.returncode, (p.stdout + p.stderr)

def scratch_tree():
    d = tempfile.mkdtemp(prefix="dsim-seed-")
    os.rmdir(d)
    rc, out = sh(["git", "-C", "/repo", "worktree", "add", "--detach", "-q", d, "HEAD"])
    if rc: raise SystemExit(out)
    return d

def drop_tree(d):
    sh(["git", "-C", "/repo", "worktree", "remove", "--force", d])
    shutil.rmtree(d, ignore_errors=True)

def add(sid, src, prop, tests):
    dst = os.path.join(SEEDED, sid)
    os.makedirs(dst, exist_ok=True)
    shutil.copy(os.path.join(src, "patch.diff"), os.path.join(dst, "patch.diff"))
    shutil.copy(os.path.join(src, "demo.py"), os.path.join(dst, "demo.py"))
    d = scratch_tree()
    meta = {"id": sid, "breaks_property": prop, "verified": {}, "ran": []}
    try:
        env = dict(os.environ, PYTHONPATH=d, PYTHONWARNINGS="ignore")
        shutil.copy(os.path.join(dst, "demo.py"), os.path.join(d, "demo.py"))
        # the demos were written against their own worktree path: rewrite it
        s = open(os.path.join(d, "demo.py")).read().replace(os.path.abspath(src), d)
        open(os.path.join(d, "demo.py"), "w").write(s)
        rc0, out0 = sh([PY, "demo.py"], cwd=d, env=env)
        meta["verified"]["demo_without_patch_rc"] = rc0
        rc, out = sh(["git", "-C", d, "apply", os.path.join(dst, "patch.diff")])
        if rc: raise SystemExit("patch does not apply: " + out)
        rc1, out1 = sh([PY, "demo.py"], cwd=d, env=env)
        meta["verified"]["demo_with_patch_rc"] = rc1
        meta["verified"]["demo_with_patch_tail"] = out1[-600:]
        meta["ran"].append(f"cd <scratch worktree> && PYTHONPATH=. {PY} demo.py  (without patch rc={rc0}, with patch rc={rc1})")
        for t in tests:
            t0 = time.time()
            rc, out = sh([PY, "-m", "pytest", "-q", "-p", "no:cacheprovider", t], cwd=d, env=env, timeout=3600)
            tail = [l for l in out.splitlines() if " passed" in l or " failed" in l or "error" in l.lower()][-1:]
            meta["verified"][f"tests:{t}"] = {"rc": rc, "summary": tail, "wall_s": round(time.time() - t0)}
            meta["ran"].append(f"PYTHONPATH=. {PY} -m pytest -q -p no:cacheprovider {t}  -> rc={rc} {tail}")
        ok = rc0 == 0 and rc1 != 0 and all(v["rc"] == 0 for k, v in meta["verified"].items() if k.startswith("tests:"))
        meta["verified"]["all_confirmed"] = ok
    finally:
        drop_tree(d)
    mp = os.path.join(dst, "meta.json")
    old = json.load(open(mp)) if os.path.exists(mp) else {}
    old.update(meta)
    json.dump(old, open(mp, "w"), indent=1, sort_keys=True)
    print(json.dumps(meta["verified"], indent=1))
    return ok

def run(sid, props, tier, extra):
    dst = os.path.join(SEEDED, sid)
    mp = os.path.join(dst, "meta.json")
    meta = json.load(open(mp))
    props = props or [meta["breaks_property"]]
    root = tempfile.mkdtemp(prefix="dsim-seedrun-")
    try:
        shutil.copytree("/repo/sketchnu", os.path.join(root, "sketchnu"))
        rc, out = sh(["git", "apply", "--directory", root, "--unsafe-paths", os.path.join(dst, "patch.diff")], cwd=root)
        if rc:
            rc, out = sh(["patch", "-p1", "-d", root, "-i", os.path.join(dst, "patch.diff")])
            if rc: raise SystemExit("patch does not apply: " + out)
        for prop in props:
            ev = tempfile.mkdtemp(prefix="dsim-seed-ev-")
            env = dict(os.environ, VERIF_REPO=root, VERIF_EVIDENCE_DIR=ev, VERIF_REPLAY_DIR=ev)
            t0 = time.time()
            rc, out = sh([os.path.join(HERE, "check"), prop, "--tier", tier] + extra, env=env, timeout=7200)
            lines = [l for l in out.splitlines() if l.startswith(("VIOLATION", "  invariant", "  detail", "KNOWN", "HARNESS"))]
            res = {"rc": rc, "tier": tier, "wall_s": round(time.time() - t0, 1), "lines": lines[:4], "seed": os.environ.get("VERIF_SEED", "0")}
            meta.setdefault("checks", {})[f"{prop}:{tier}" + ("" if not extra else ":" + " ".join(extra))] = res
            print(sid, prop, tier, "rc=%d" % rc, f"{res['wall_s']}s", lines[1:3] if len(lines) > 1 else lines)
            shutil.rmtree(ev, ignore_errors=True)
    finally:
        shutil.rmtree(root, ignore_errors=True)
    json.dump(meta, open(mp, "w"), indent=1, sort_keys=True)

def main():
    a = sys.argv[1:]
    if a[0] == "add":
        tests = []
        for x in a:
            if x.startswith("--tests="): tests = x.split("=")[1].split(",")
        ok = add(a[1], a[2], a[3], tests)
        sys.exit(0 if ok else 1)
    if a[0] == "run":
        props, tier, extra = None, "quick", []
        for x in a[2:]:
            if x.startswith("--props="): props = x.split("=")[1].split(",")
            elif x.startswith("--tier="): tier = x.split("=")[1]
            else: extra.append(x)
        ids = sorted(os.listdir(SEEDED)) if a[1] == "all" else [a[1]]
        for sid in ids:
            if os.path.exists(os.path.join(SEEDED, sid, "meta.json")):
                run(sid, props, tier, extra)
if __name__ == "__main__":
    main()
