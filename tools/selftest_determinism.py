#!/usr/bin/env python3
"""Determinism self-test: every engine/property, N seeds (= run indices) executed in
(a) the 16-worker pool, (b) a fresh interpreter with another PYTHONHASHSEED and 3 workers,
(c) a fresh interpreter with NUMBA_NUM_THREADS=4 and 1 worker (first quarter of the runs);
per-run digests (event log / schedule trace, final table bytes, invariant results) must agree.

usage: tools/selftest_determinism.py [--runs N] [props...]"""
import json, os, subprocess, sys, tempfile
HERE = os.path.dirname(os.path.dirname(os.path.abspath(__file__)))
ALL = ["C01","C02","C03","C04","C05","C06","C08","C09","C10","C12","C13","C15","C16","C18","C19","C20"]

def run(prop, runs, workers, env_extra, out):
    env = dict(os.environ, VERIF_EVIDENCE_DIR=tempfile.mkdtemp(prefix="dsim-st-"), VERIF_REPLAY_DIR=tempfile.mkdtemp(prefix="dsim-st-"))
    env.update(env_extra)
    cmd = [os.path.join(HERE, "check"), prop, "--runs", str(runs), "--workers", str(workers), "--digests", out, "--quiet"]
    if prop == "C20": cmd = [os.path.join(HERE, "check"), prop, "--workers", str(workers), "--digests", out, "--quiet"]
    p = subprocess.run(cmd, capture_output=True, text=True, env=env, timeout=3600)
    if p.returncode != 0:
        print(prop, "rc", p.returncode, p.stdout[-500:], p.stderr[-1500:]); return None
    return json.load(open(out))

def main():
    args = [a for a in sys.argv[1:] if not a.startswith("--")]
    runs = 200
    for a in sys.argv[1:]:
        if a.startswith("--runs="): runs = int(a.split("=")[1])
    seed = os.environ.get("VERIF_SEED", "0")
    bad = 0
    rep = {}
    for prop in (args or ALL):
        d = tempfile.mkdtemp(prefix="dsim-st-")
        a = run(prop, runs, 16, {}, os.path.join(d, "a.json"))
        b = run(prop, runs, 3, {"VERIF_HASHSEED": "12345"}, os.path.join(d, "b.json"))
        c = run(prop, max(8, runs // 4), 1, {"NUMBA_NUM_THREADS": "4", "VERIF_HASHSEED": "777"}, os.path.join(d, "c.json"))
        if a is None or b is None or c is None:
            bad += 1; rep[prop] = "failed to run"; continue
        diff_ab = [k for k in a if a[k] != b.get(k)]
        diff_ac = [k for k in c if a.get(k) != c[k]]
        rep[prop] = {"runs": len(a), "diff_pool16_vs_hashseed_3workers": len(diff_ab), "diff_vs_numba4threads": len(diff_ac), "compared_numba4": len(c)}
        print(prop, rep[prop], flush=True)
        if diff_ab or diff_ac:
            bad += 1
            print("  first differing runs:", diff_ab[:5], diff_ac[:5])
    json.dump({"seed": seed, "runs_per_property": runs, "result": rep}, open(os.path.join(HERE, "selftest_determinism.json"), "w"), indent=1, sort_keys=True)
    sys.exit(1 if bad else 0)
if __name__ == "__main__":
    main()
