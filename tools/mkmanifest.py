#!/usr/bin/env python3
"""Writes /verif/MANIFEST.json from the table below (single source of truth)."""
import json, os
HERE = os.path.dirname(os.path.dirname(os.path.abspath(__file__)))

CLAIMED = {
    # id: (engine, category, technique, level text, level note, design ref)
}
def add(pid, engine, cat, technique, text, note, ref):
    CLAIMED[pid] = (engine, cat, technique, text, note, ref)

W = "W (world simulator: replicas + lossy network + disk + shm views + draw seam)"
add("C01", W, "exploration", "deterministic simulation: seeded histories over replicas with merge-network and restart faults, truth-multiset oracle checked after every event",
    "Seeded search over simulated replica histories (adds/updates/ngrams on up to 4 nodes, merges delivered through a dropping/duplicating/reordering network, save + crash-restart from disk). After every event both bounds of the statement are evaluated for every key of the run's universe against a truth multiset; counter ownership is learned from an empty probe sketch, not from the hash. Sampling, not proof.",
    "Trusts the truth model (Counter of requested multiplicities), numpy/numba, and that one probe add marks exactly the key's counters.", "DESIGN.md §4 C01")
add("C02", W, "exploration", "deterministic simulation: HLL replicas as a state-based CRDT under drop/dup/reorder/partition/crash, refinement against a set model with independent FastHash64+rank reference",
    "Replicas of one (p, seed) exchange snapshots through an adversarial network; after every event registers must equal the reference registers of the node's key set (independent pure-Python FastHash64 and rank), query() must equal a fresh sketch fed the distinct keys, and after heal two different anti-entropy trees must converge to the union byte-for-byte.",
    "Trusts the pure-Python FastHash64/rank reference written from the published algorithm.", "DESIGN.md §4 C02")

NA = {
    "C07": "pure statistical function of one key set and (p, seed): no schedule, clock, fault, history or shared party for a simulator to control (DESIGN.md §5)",
    "C11": "hash functions are pure functions of (bytes, seed): nothing to schedule or fault; FastHash64 deviations on inputs exercised by C02 are still caught there (DESIGN.md §5)",
    "C14": "distributional property of the hash family over random keys: a function of the key set only (DESIGN.md §5)",
    "C17": "query() as a pure function of the register array and shipped tables: no interleaving, fault or history in the statement (DESIGN.md §5)",
}

def main():
    checks = []
    for pid in sorted(CLAIMED):
        engine, cat, technique, text, note, ref = CLAIMED[pid]
        checks.append({
            "property_id": pid,
            "quick_cmd": f"./check {pid} --tier quick",
            "thorough_cmd": f"./check {pid} --tier thorough",
            "evidence_file": f"/verif/evidence/{pid}.json",
            "replay_cmd_template": f"./check {pid} --replay {{path}}",
            "engine": engine,
            "level_claimed": {"category": cat, "text": text, "design_ref": ref},
            "level_note": note,
            "technique": technique,
        })
    m = {
        "version": 1,
        "setup_cmd": "./setup.sh",
        "hooks": {
            "guard": "SKETCHNU_VERIF",
            "enable": "no source hook exists: every seam is a module-level name, a public attribute or an environment variable; checks export SKETCHNU_VERIF=1 for completeness",
            "baseline_off_cmd": "cd /repo && /venv/bin/python -m pytest -ra -q -p no:cacheprovider --timeout=900 --continue-on-collection-errors",
            "source_commits": [],
            "add_only": True,
        },
        "engines": [
            {"name": "W", "path": "dsim/world.py", "serves_properties": [p for p in sorted(CLAIMED) if CLAIMED[p][0].startswith("W")], "kind_free_text": "single-threaded discrete-event world simulator: replicas, message network with drop/dup/reorder/partition, simulated disk + crash-restart, shared-memory views, randomness seam, virtual clock"},
            {"name": "P", "path": "dsim/procsim.py", "serves_properties": [p for p in sorted(CLAIMED) if CLAIMED[p][0].startswith("P")], "kind_free_text": "process simulator: the real helpers.parallel_add run in one interpreter, every would-be OS process a baton-passing thread, seeded scheduler at every queue/process/sleep operation, fault plans"},
            {"name": "D", "path": "dsim/disk.py", "serves_properties": [p for p in sorted(CLAIMED) if CLAIMED[p][0].startswith("D")], "kind_free_text": "disk crash enumerator: every strict prefix of real save() output through every loader"},
        ],
        "checks": checks,
        "not_applicable": [{"property_id": k, "reason": v} for k, v in sorted(NA.items())],
        "notes": "Technique family: deterministic simulation with fault injection. One entry point ./check <ID>; VERIF_SEED selects the batch; exit 2 = harness error (never a verdict).",
    }
    with open(os.path.join(HERE, "MANIFEST.json"), "w") as f:
        json.dump(m, f, indent=1)
        f.write("\n")
if __name__ == "__main__":
    main()
