#!/usr/bin/env python3
"""Writes /verif/MANIFEST.json from the table below (single source of truth)."""
import json, os
HERE = os.path.dirname(os.path.dirname(os.path.abspath(__file__)))

CLAIMED = {
    # id: (engine, category, technique, level text, level note, design ref)
}
def add(pid, engine, cat, technique, text, note, ref):
    CLAIMED[pid] = (engine, cat, technique, text, note, ref)

W = "W (world simulator: replicas + lossy network + disk + shm views + draw seam)"
add("C01", W, "exploration", "deterministic simulation: seeded histories over replicas with merge-network and restart faults, truth-multiset oracle checked after every event",
    "Seeded search over simulated replica histories (adds/updates/ngrams on up to 4 nodes, merges delivered through a dropping/duplicating/reordering network, save + crash-restart from disk). After every event both bounds of the statement are evaluated for every key of the run's universe against a truth multiset; counter ownership is learned from an empty probe sketch, not from the hash. Sampling, not proof.",
    "Trusts the truth model (Counter of requested multiplicities), numpy/numba, and that one probe add marks exactly the key's counters.", "DESIGN.md §4 C01")
add("C02", W, "exploration", "deterministic simulation: HLL replicas as a state-based CRDT under drop/dup/reorder/partition/crash, refinement against a set model with independent FastHash64+rank reference",
    "Replicas of one (p, seed) exchange snapshots through an adversarial network; after every event registers must equal the reference registers of the node's key set (independent pure-Python FastHash64 and rank), query() must equal a fresh sketch fed the distinct keys, and after heal two different anti-entropy trees must converge to the union byte-for-byte.",
    "Trusts the pure-Python FastHash64/rank reference written from the published algorithm.", "DESIGN.md §4 C02")

P = "P (process simulator: real parallel_add under a seeded baton scheduler with fault plans)"
D = "D (disk crash enumerator: all strict prefixes of save() output)"
add("C03", W, "exploration", "deterministic simulation: heavy-hitter replicas with NUL/length-aliased key pools under merge-network and restart faults; count <= truth oracle after every event",
    "Seeded histories on up to 4 heavy-hitter replicas (adversarial pools: empty, all-NUL, NUL-suffixed pairs, over-long keys; widths 1..16) with merges delivered in any order/duplication and save/crash-restart; after every event hh[key] and every (key, count) of sampled query(k, threshold) calls are checked against the truth multiset keyed by the length-sensitive identity key[:max_key_len].",
    "Trusts the truth model; identity is taken from the statement (first max_key_len bytes, length-sensitive).", "DESIGN.md §4 C03/C04")
add("C04", W, "exploration", "deterministic simulation: same replica histories as C03; lower-bound oracle hh[k] >= max_r(2f - W_r) with cell ownership learned from probe sketches",
    "Same simulated histories as C03 (all orders, partitions over replicas, merge trees, duplicates, restarts). After every event, for every key with positive bound B = max_r(2f - W_r) (ownership from an empty probe sketch after one add), hh[key] >= B, query(inf, t) contains it for t <= B, and a majority key is first with count >= 2f - N. Only while total mass < 2^32-1 (statement: absent saturation).",
    "Trusts truth model and probe ownership (falls back to 'shares with everything', which only weakens the bound).", "DESIGN.md §4 C03/C04")
add("C05", W, "exploration", "deterministic simulation: pre/post-condition of every add event in simulated histories (merged/restarted states), log draws placed by the simulator",
    "Every add(key, v) event inside simulated histories (states produced by merges, restarts, other entry points) is bracketed: whole-universe estimates, table copy and n_added before and after; all clauses of the statement are evaluated (linear exactness, log step bounds and reserved-range exactness, no other estimate decreases or overshoots, <= 1 changed counter per row, n_added accounting).",
    "Trusts probe ownership for the log clauses; draws come from the simulator-owned batch.", "DESIGN.md §4 C05")
add("C06", W, "exploration", "deterministic simulation with the randomness seam owned by the simulator: placed draws at the decision boundary, draw-by-draw reference walk of unit-add events, freshness watch on the batch and the generator, lower bound on every history",
    "(a) law probes: counter set to c, one draw placed just below/above/far from base^-(c-nr), unit add must advance iff u < p, no draw in the reserved range, none at the maximum; decode table steps equal 1/p. (b) lower bound min(truth, nr+1) after every event of merge/restart histories. (c) per workload event: new batch material is in [0,1) and not the old one, the read position never moves back over handed-out draws and must move when a decision beyond the reserved range was due; events made of unit adds only are compared with a reference walk consuming the same batch (table and read position; either convention for the certain step at c == num_reserved; batch length read from the sketch); in runs that leave the code's generator alone no refill may repeat an earlier one. (d) final counters of N unit adds fed from the code's own refills vs the exact Markov chain (chi-square).",
    "Trusts the reference walk written from the statement; draws within 1e-9 relative of the boundary are skipped (pow rounding).", "DESIGN.md §4 C06")
add("C09", W, "exploration", "deterministic simulation: every merge delivery checked as a refinement of the per-cell spec, with injected pre-states; one disclosed enumeration sub-mode (log8 all 256x256 pairs)",
    "Every deliver event (file or live snapshot, duplicates, any order) on linear/log16/log8 replicas is checked cell by cell against the statement (saturating sum; exact in reserved range; maximum once sum >= max_count; nearest counter otherwise; never below either input), plus operand unchanged, bookkeeping sums, commutativity and neutral element on clones. Seeded state injection reaches far counters; 2% of log8 runs enumerate all 256x256 pairs of the run's configuration, 2% of log16 runs all 65536 counters against the empty sketch.",
    "Trusts the decode formula of the statement; nearest is judged with 1e-9 relative tolerance (ties and log rounding not prescribed).", "DESIGN.md §4 C09")
add("C10", W, "exploration", "deterministic simulation: save and crash-restart events at arbitrary points of histories, restored replica vs never-restarted shadow under mirrored draws",
    "All five classes; save events round-trip through every loader route (class/module, shared_memory False/True): class, parameters, bytes, queries, bookkeeping, merge with the original, foreign class loaders reject. crash_restart events restart a node from the latest or an older snapshot; afterwards the restored primary and a never-saved in-memory shadow must stay equal (public arrays; key bytes of zero-count heavy-hitter cells masked) after every later event under identical draws; shared loads are read back through an attached peer and through a helper built from the loaded sketch's own args.",
    "Trusts numpy byte comparison of public arrays as 'exactly equal'.", "DESIGN.md §4 C10")
add("C12", W, "exploration", "deterministic simulation: scheduler-chosen entry point vs single-add shadow under identical draws, byte-equal state after every event",
    "Each workload event enters through a PRNG-chosen entry point (add with multiplicity, update(list), update(dict), add_ngram, update_ngram) while a shadow sketch receives the canonical expansion as single add(key) calls; both consume the same placed draws; public state must be equal after every event (key bytes of zero-count heavy-hitter cells masked); sketch[key] == query(key).",
    "Expansion semantics are taken from the statement (window rule, dict order). Multiplicities that cross the 32-bit ceiling are reached by lifting a key to just below it through one call applied identically to sketch and shadow.", "DESIGN.md §4 C12")
add("C13", W, "exploration", "deterministic simulation: query events interleaved with adds/merges/restarts/views (cache hit and miss paths), oracle from tables and a freshly loaded copy",
    "Histories interleave add/merge/save/restart with query(k, t) events incl. immediate repeats with same/changed threshold and queries through attached views; each answer is checked: <= k pairs, distinct, sorted, count == hh[key] >= threshold, equals the top-k derived from the public tables, every added key above max(threshold,1) present for k=inf, and equal to the answer of HeavyHitters.load(save()).",
    "Total mass kept below 2^32 and thresholds <= 2^32-1 (the statement's space).", "DESIGN.md §4 C13")
add("C15", W, "exploration", "deterministic simulation: fault kind 'config-skewed peer' injected into replica histories; TypeError and bit-identical operands",
    "Inside ordinary histories a peer differing in exactly one parameter (width, depth, counter type incl. all ordered type pairs, max_count, num_reserved | p, seed | width, depth, max_key_len), both non-empty, is offered for merging in one or both directions: every attempt must raise TypeError and leave both operands byte-identical. Agreeing peers built differently (other phi, factory, loaded from file, shared) must merge.",
    "-", "DESIGN.md §4 C15")
add("C16", W, "exploration", "deterministic simulation: operations routed through owner/attached views vs in-memory shadow, view/owner deletion orders, /dev/shm listing",
    "Primary owns a real POSIX segment, 0-2 views attach via attach_existing_shm or helpers.attach_shared_memory (some views are themselves shared-memory sketches that own a block of their own, which must be released when they are dropped); every workload/merge event is routed through a PRNG-chosen party; after every event owner, every view and an in-memory shadow must expose byte-equal state and equal answers; drop_view leaves owner and segment intact; drop_owner (views first or owner first) removes the segment name. Odd byte sizes (unaligned bookkeeping) are reached and counted.",
    "Linux shared-memory semantics (exact segment size).", "DESIGN.md §4 C16")
add("C18", W, "exploration", "deterministic simulation: histories that reach and pass the ceilings (adds, merges, restarts), monotonicity/sticky-ceiling invariants; constructor clause probed per event",
    "Multiplicities adjacent to 2^32-1 and small log max_count make ceilings reachable; around every add/merge no count-min estimate may decrease (so a ceiling value stays), a heavy-hitter key alone in its cells equals min(truth, 2^32-1); ctor events draw (max_count, num_reserved) over the whole range: the constructor must raise ValueError or decode its maximum counter to max_count within 1e-6 relative.",
    "1e-6 relative tolerance for 'decodes to max_count'.", "DESIGN.md §4 C18")
add("C08", P, "exploration", "deterministic simulation of the real parallel_add: would-be processes as baton-passing threads under a seeded scheduler (7 personalities), simulated queues/processes/clock; sequential-model oracle",
    "The unmodified helpers.parallel_add (filler, logger, n workers, merge rounds, shared-memory attach, monitor loop, __del__ clean-up) runs in one interpreter; the scheduler decides who proceeds at every queue/process/sleep operation and between source lines of helpers.py (sys.monitoring LINE events), and may stall a pre-empted process for simulated seconds; worker counts 1..9, all sketch subsets, list and generator items, arbitrary picklable item objects, callbacks returning python/numpy ints, simulated processing delays. At return: result order/classes, HLL registers == sequential, n_added/n_records exact, C01/C03/C04 bounds w.r.t. the whole stream, every item exactly once, no task left, no segment leaked. One real spawned parallel_add (3 workers, all sketches) runs beside the quick batch as a conformance anchor for the process stub; 5 in the thorough tier.",
    "SimContext models spawn pickling, bounded FIFO queues with feeder lag, timed get/put/join, sentinels + connection.wait, Event/Lock/Semaphore/JoinableQueue, exit codes; anything else the tree asks of it is exit 2 (no verdict).", "DESIGN.md §4 C08")
add("C19", P, "exploration", "deterministic simulation of parallel_add with fault plans: callback raises before/mid/after, worker dies at item/take/pill, under seeded schedules; containment and termination oracles",
    "Fault plans over the same simulated parallel_add (statement-level pre-emption and stalls included): any subset of <= 5 items raises one of 27 exception types (before/mid/after its updates) -> must return, contain every other item's full contribution (lower bounds), n_records counts successful items only; one worker dies with an os._exit-like code or by signal (-9/-15/-11) inside a callback, after taking its k-th item, or at the poison pill -> parallel_add must terminate with an exception; returning a result or hanging (deadlock / livelock detection with step and simulated-time caps) is the violation. Two real spawned runs (callback raising; worker os._exit(7)) anchor the stub in the quick tier, three in the thorough tier.",
    "Worker death is modelled as a BaseException with non-zero exit code (stack unwinds, unlike os._exit).", "DESIGN.md §4 C19")
add("C20", D, "fault_enumeration", "fault enumeration: every crash offset (strict prefix) of every saved file through every loader route",
    "Exhaustive over the stated fault space: for each of the five classes x shapes x contents (incl. keys containing zip signatures) every strict prefix 0..len-1 of the bytes save() wrote is put on disk and offered to the class loader and (count-min) the module-level load, shared_memory False and sampled True: each must raise; the complete file must load to the saved sketch. In addition three files above 1 MiB (six in the thorough tier) whose crash points are sampled, not enumerated (both ends byte by byte, member boundaries, powers of two, 300 seeded random offsets; every loader, shared_memory False and True): the exhaustive claim covers the small files only.",
    "Fault model is the statement's (prefix truncation); intermediate write-log states are reported as NOTE only.", "DESIGN.md §4 C20")

NA = {
    "C07": "pure statistical function of one key set and (p, seed): no schedule, clock, fault, history or shared party for a simulator to control (DESIGN.md §5)",
    "C11": "hash functions are pure functions of (bytes, seed): nothing to schedule or fault; FastHash64 deviations on inputs exercised by C02 are still caught there (DESIGN.md §5)",
    "C14": "distributional property of the hash family over random keys: a function of the key set only (DESIGN.md §5)",
    "C17": "query() as a pure function of the register array and shipped tables: no interleaving, fault or history in the statement (DESIGN.md §5)",
}

def main():
    checks = []
    for pid in sorted(CLAIMED):
        engine, cat, technique, text, note, ref = CLAIMED[pid]
        checks.append({
            "property_id": pid,
            "quick_cmd": f"./check {pid} --tier quick",
            "thorough_cmd": f"./check {pid} --tier thorough",
            "evidence_file": f"/verif/evidence/{pid}.json",
            "replay_cmd_template": f"./check {pid} --replay {{path}}",
            "engine": engine,
            "level_claimed": {"category": cat, "text": text, "design_ref": ref},
            "level_note": note,
            "technique": technique,
        })
    m = {
        "version": 1,
        "setup_cmd": "./setup.sh",
        "hooks": {
            "guard": "SKETCHNU_VERIF",
            "enable": "no source hook exists: every seam is a module-level name, a public attribute or an environment variable; checks export SKETCHNU_VERIF=1 for completeness",
            "baseline_off_cmd": "cd /repo && /venv/bin/python -m pytest -ra -q -p no:cacheprovider --timeout=900 --continue-on-collection-errors",
            "source_commits": [],
            "add_only": True,
        },
        "engines": [
            {"name": "W", "path": "dsim/world.py", "serves_properties": [p for p in sorted(CLAIMED) if CLAIMED[p][0].startswith("W")], "kind_free_text": "single-threaded discrete-event world simulator: replicas, message network with drop/dup/reorder/partition, simulated disk + crash-restart, shared-memory views, randomness seam, virtual clock"},
            {"name": "P", "path": "dsim/procsim.py", "serves_properties": [p for p in sorted(CLAIMED) if CLAIMED[p][0].startswith("P")], "kind_free_text": "process simulator: the real helpers.parallel_add run in one interpreter, every would-be OS process a baton-passing thread, seeded scheduler at every queue/process/sleep operation, fault plans"},
            {"name": "D", "path": "dsim/disk.py", "serves_properties": [p for p in sorted(CLAIMED) if CLAIMED[p][0].startswith("D")], "kind_free_text": "disk crash enumerator: every strict prefix of real save() output through every loader"},
        ],
        "checks": checks,
        "not_applicable": [{"property_id": k, "reason": v} for k, v in sorted(NA.items())],
        "notes": "Technique family: deterministic simulation with fault injection. One entry point ./check <ID>; VERIF_SEED selects the batch; exit 2 = harness error (never a verdict). Every 12th run of a W batch is a threshold run sized around a constant harvested from the tree under test (DESIGN.md section 9). Every check re-executes 2% of its runs in the parent and compares digests, and fails (exit 2) when a required reach probe stays at zero.",
    }
    with open(os.path.join(HERE, "MANIFEST.json"), "w") as f:
        json.dump(m, f, indent=1)
        f.write("\n")
if __name__ == "__main__":
    main()
