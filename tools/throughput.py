#!/usr/bin/env python3
"""Prints the measured-throughput table (markdown) from /verif/<dir>/*.json (default: evidence)."""
import json, glob, os, sys
HERE = os.path.dirname(os.path.dirname(os.path.abspath(__file__)))
rows = []
DIR = sys.argv[1] if len(sys.argv) > 1 else "evidence"
for f in sorted(glob.glob(os.path.join(HERE, DIR, "C*.json"))):
    e = json.load(open(f)); c = e["coverage"]
    faults = c.get("fault_and_event_counts_fired", {})
    fk = [k for k in faults if k in ("deliver", "dup", "drop", "partition", "crash_restart", "attach", "drop_view", "drop_owner", "skew_merge", "law", "ctor", "inject")
          or k.startswith("fault:") or k in ("line_preemptions_in_helpers", "line_stalls_in_helpers", "shared_memory_load_attempts")]
    top = ", ".join(f"{k}={faults[k]}" for k in sorted(fk)[:9])
    rows.append((e["property_id"], e["tier"], e["seed"], c["evaluations"], c.get("events", 0), c.get("runs_per_hour", 0), c.get("simulated_seconds", 0),
                 c["distinct_nontrivial"], c.get("distinct_final_states", 0), e["wall_s"], top))
print("| id | tier | seed | runs | events | runs/hour | simulated s | distinct non-trivial | distinct final states | wall s | faults / fault-like events fired |")
print("|---|---|---|---|---|---|---|---|---|---|---|")
for r in rows:
    print("| " + " | ".join(str(x) for x in r) + " |")
