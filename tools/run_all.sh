#!/bin/sh
# runs every registered quick (or thorough) check once; prints one line per property
cd "$(dirname "$0")/.." || exit 2
TIER="${1:-quick}"
for p in C01 C02 C03 C04 C05 C06 C08 C09 C10 C12 C13 C15 C16 C18 C19 C20; do
  s=$(date +%s)
  ./check $p --tier $TIER > /tmp/run_all_$p.log 2>&1
  rc=$?
  e=$(date +%s)
  echo "$p rc=$rc $((e-s))s $(grep -c VIOLATION /tmp/run_all_$p.log) violations"
done
