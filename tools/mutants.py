#!/usr/bin/env python3
"""Sensitivity self-test: source mutants applied to a scratch copy of /repo (never to
/repo itself), each mapped to the properties that must flag it within the quick budget.

usage: tools/mutants.py [name ...] [--props C01,C02] [--list]
Results are appended to /verif/mutants_report.json (one entry per (mutant, property))."""
import json, os, shutil, subprocess, sys, tempfile, time

HERE = os.path.dirname(os.path.dirname(os.path.abspath(__file__)))
REPO = os.environ.get("VERIF_REPO", "/repo")

M = []
def mut(name, file, old, new, props, count=1):
    M.append(dict(name=name, file=file, old=old, new=new, props=props, count=count))

CM = "sketchnu/countmin.py"; HH = "sketchnu/heavyhitters.py"; HL = "sketchnu/hyperloglog.py"; HP = "sketchnu/helpers.py"

mut("merge_linear_no_saturation", CM,
    "            if other_cms[row, col] > uint_maxval - cms[row, col]:\n                cms[row, col] = uint_maxval\n            else:\n                cms[row, col] += other_cms[row, col]",
    "            cms[row, col] += other_cms[row, col]", ["C01", "C09", "C18"])
mut("add_linear_raises_all_rows", CM,
    "        count = cms[row, buckets[row]]\n        if count < new_count:\n            cms[row, buckets[row]] = new_count\n\n\n@njit(\n    types.void(\n        uint32[:, :],\n        uint64[:],\n        uint64[:],\n        uint64,\n        uint64,\n        uint32,\n        types.Bytes(types.uint8, 1, \"C\"),\n        uint64,",
    "        count = cms[row, buckets[row]]\n        if count < uint_maxval - value:\n            cms[row, buckets[row]] = count + value\n        else:\n            cms[row, buckets[row]] = uint_maxval\n\n\n@njit(\n    types.void(\n        uint32[:, :],\n        uint64[:],\n        uint64[:],\n        uint64,\n        uint64,\n        uint32,\n        types.Bytes(types.uint8, 1, \"C\"),\n        uint64,",
    ["C05", "C01"])
mut("query_linear_skips_last_row", CM,
    "    min_count = uint_maxval\n    for row in range(depth):\n        buckets[row] = fasthash64(key, row) % width\n        count = cms[row, buckets[row]]\n        if count < min_count:\n            min_count = count\n    return min_count\n\n\n@njit(\n    types.void(\n        uint32",
    "    min_count = uint_maxval\n    for row in range(depth):\n        buckets[row] = fasthash64(key, row) % width\n        count = cms[row, buckets[row]]\n        if count < min_count and (row + 1 < depth or depth == 1):\n            min_count = count\n    return min_count\n\n\n@njit(\n    types.void(\n        uint32",
    ["C01"])
mut("hll_merge_min_when_both_set", HL,
    "        registers[i] = max(registers[i], other_registers[i])",
    "        if registers[i] > 0 and other_registers[i] > 0:\n            registers[i] = min(registers[i], other_registers[i])\n        else:\n            registers[i] = max(registers[i], other_registers[i])", ["C02"])
mut("hll_rank_off_by_one_high_branch", HL,
    "    y = x >> uint64(32)\n    if y != zero:\n        n = n - uint8(32)", "    y = x >> uint64(32)\n    if y != zero:\n        n = n - uint8(31)", ["C02"])
mut("hll_merge_ignores_seed", HL, "        if self.p != other.p or self.seed != other.seed:", "        if self.p != other.p:", ["C15"])
mut("cms_merge_ignores_dtype", CM,
    "        if (\n            self.width != other.width\n            or self.depth != other.depth\n            or self.uint_maxval != other.uint_maxval\n        ):\n            raise TypeError(\"self and other have different width | depth | type\")",
    "        if self.width != other.width or self.depth != other.depth:\n            raise TypeError(\"self and other have different width | depth | type\")", ["C15"])
mut("log_merge_ignores_num_reserved", CM,
    "            or self.max_count != other.max_count\n            or self.num_reserved != other.num_reserved\n        ):", "            or self.max_count != other.max_count\n        ):", ["C15"], count=2)
mut("hh_replace_ge", HH, "            if value > lhh_count[row, col]:", "            if value >= lhh_count[row, col]:", ["C12", "C04"])
mut("hh_max_count_ignores_key", HH,
    "            np.all(key_array == lhh[row, col])\n            and key_lens[row, col] == key_len\n            and lhh_count[row, col] > max_count",
    "            lhh_count[row, col] > max_count", ["C03"])
mut("hh_query_rebuild_only_on_growth", HH,
    "        if (self.n_added_sort < self.n_added()) or (self.threshold_sort != threshold):", "        if self.n_added_sort < self.n_added():", ["C13"])
mut("hh_query_k_plus_one", HH, "        return self.candidate_set.most_common(k)", "        return self.candidate_set.most_common(k + 1)", ["C13"])
mut("hh_candidates_row0_only", HH, "        for row in range(self.depth):\n            for column in range(self.width):", "        for row in range(1):\n            for column in range(self.width):", ["C13", "C04"])
mut("hh_merge_keeps_smaller", HH, "                if lhh_count[row, col] >= other_lhh_count[row, col]:\n                    lhh_count[row, col] -= other_lhh_count[row, col]",
    "                if lhh_count[row, col] >= other_lhh_count[row, col] or other_lhh_count[row, col] == 3:\n                    lhh_count[row, col] -= min(lhh_count[row, col], other_lhh_count[row, col])", ["C04"])
mut("ngram_window_off_by_one_linear", CM, "        for i in range(key_len - (ngram - uint64(1))):\n            _add_linear(", "        for i in range(key_len - ngram):\n            _add_linear(", ["C12", "C01"])
mut("ngram_boundary_hll", HL, "    if key_len <= ngram:\n        _add(registers, seed, p, m, key)", "    if key_len < ngram:\n        _add(registers, seed, p, m, key)", ["C12", "C02"])
mut("update_dict_ignores_values_hh", HH, "            for key, value in keys.items():\n                self.add(key, value)", "            for key, value in keys.items():\n                self.add(key)", ["C12", "C04"])
mut("rand_pointer_reset_without_refill", CM, "        rand_batch[:] = np.random.rand(2048)\n        rand_ptr = uint64(1)", "        rand_ptr = uint64(1)", ["C06"])
mut("log_counter_wrong_exponent", CM, "            if rand < base ** (-cprime):", "            if rand < base ** (-cprime + 1.0):", ["C06"])
mut("log_merge_rounds_down", CM, "                if delta / (vhigher - vlower) <= 0.5:\n                    cms[row, col] = clower\n                else:\n                    cms[row, col] = clower + uint8(1)", "                cms[row, col] = clower", ["C09"])
mut("log16_merge_no_saturation_branch", CM, "            elif v >= max_count:\n                cms[row, col] = uint_maxval\n            else:\n                cprime = np.log((v - num_reserved) * (base - 1.0) + 1.0) / np.log(base)\n                cprime = uint16(cprime)",
    "            elif v >= max_count * 4:\n                cms[row, col] = uint_maxval\n            else:\n                cprime = np.log((v - num_reserved) * (base - 1.0) + 1.0) / np.log(base)\n                cprime = uint16(cprime)", ["C09", "C18"])
mut("load_linear_drops_n_records", CM, "            cms = CountMinLinear(*args, shared_memory=shared_memory)\n            np.copyto(cms.cms, npzfile[\"cms\"])\n            np.copyto(cms.n_added_records, npzfile[\"n_added_records\"])",
    "            cms = CountMinLinear(*args, shared_memory=shared_memory)\n            np.copyto(cms.cms, npzfile[\"cms\"])\n            cms.n_added_records[0] = npzfile[\"n_added_records\"][0]", ["C10"])
mut("hh_load_default_phi", HH, "            hh = HeavyHitters(\n                width, depth, max_key_len, phi, shared_memory=shared_memory\n            )", "            hh = HeavyHitters(\n                width, depth, max_key_len, shared_memory=shared_memory\n            )", ["C10"])
mut("hll_save_seed_as_float", HL, "            filename, args=np.array([self.p, self.seed], np.uint64), hll=self.registers", "            filename, args=np.array([self.p, self.seed], np.float64).astype(np.uint64), hll=self.registers", ["C10"])
mut("attach_cms_bookkeeping_offset_rounded", CM, "            existing_shm.buf[self.cms.nbytes :], np.uint64\n        )", "            existing_shm.buf[-16:], np.uint64\n        ) if self.cms.nbytes % 8 == 0 else np.zeros(2, np.uint64)", ["C16"])
mut("view_unlinks_in_del", HL, "                    self.existing_shm.close()\n                except Exception as exc:\n                    raise MemoryError(f\"Failed to close existing_shm: {exc}\")", "                    self.existing_shm.close()\n                    self.existing_shm.unlink()\n                except Exception as exc:\n                    raise MemoryError(f\"Failed to close existing_shm: {exc}\")", ["C16"])
mut("hh_attach_key_lens_not_shared", HH, "        self.key_lens = np.frombuffer(\n            existing_shm.buf[start:end],\n            np.uint8,\n        ).reshape(self.depth, self.width)\n        start = end\n        self.n_added_records = np.frombuffer(\n            existing_shm.buf[start:],",
    "        self.key_lens = np.array(np.frombuffer(\n            existing_shm.buf[start:end],\n            np.uint8,\n        ).reshape(self.depth, self.width))\n        start = end\n        self.n_added_records = np.frombuffer(\n            existing_shm.buf[start:],", ["C16"])
mut("linear_add_no_value_cap", CM, "    value = min(value, uint_maxval - min_count)\n    new_count = min_count + value", "    new_count = min_count + value", ["C18", "C05", "C01"])
mut("hh_add_no_saturation", HH, "            if value < uint_maxval - lhh_count[row, col]:\n                lhh_count[row, col] += value\n            else:\n                lhh_count[row, col] = uint_maxval", "            lhh_count[row, col] += value", ["C18"])
mut("funcprime_original", CM, "    K = uint_max - num_reserved\n    return K * base ** (K - 1) - M", "    return uint_max * base ** (uint_max - num_reserved) - M", ["C18"])
mut("load_swallow_errors_hll", HL, "        with np.load(filename) as npzfile:\n            args = npzfile[\"args\"]\n            hll = HyperLogLog(*args, shared_memory=shared_memory)\n            np.copyto(hll.registers, npzfile[\"hll\"])\n\n        return hll",
    "        try:\n            with np.load(filename) as npzfile:\n                args = npzfile[\"args\"]\n                hll = HyperLogLog(*args, shared_memory=shared_memory)\n                np.copyto(hll.registers, npzfile[\"hll\"])\n        except Exception:\n            hll = HyperLogLog(shared_memory=shared_memory)\n\n        return hll", ["C20"])
mut("pm_drop_odd_sketch", HP, "        for i in range(0, n_to_merge, 2):\n            new_sketch_array.append(sketch_array[i])", "        for i in range(0, n_to_merge - 1, 2):\n            new_sketch_array.append(sketch_array[i])", ["C08"])
mut("pm_pair_i_i_plus_1", HP, "            sketch1 = (sketch_type, sketch_args, sketch_array[i * 2].shm.name)\n            sketch2 = (sketch_type, sketch_args, sketch_array[i * 2 + 1].shm.name)", "            sketch1 = (sketch_type, sketch_args, sketch_array[i].shm.name)\n            sketch2 = (sketch_type, sketch_args, sketch_array[i + 1].shm.name)", ["C08"])
mut("worker_no_n_records", HP, "                    local_sketch.n_added_records[1] += np.uint64(n_records)", "                    local_sketch.n_added_records[1] += np.uint64(0)", ["C08"])
mut("worker_no_except", HP, "            except Exception as exc:\n                n_recs = 0", "            except KeyError as exc:\n                n_recs = 0", ["C19"])
mut("monitor_no_queue_close", HP, "                # Now close all the queues\n                queue.close()\n                log_queue.close()", "                # Now close all the queues\n                any_none = False", ["C19"])
mut("worker_counts_records_on_failure", HP, "            except Exception as exc:\n                n_recs = 0", "            except Exception as exc:\n                n_recs = 1", ["C19"])

# ----------------------------------------------------------------------------------
# benign variants: changes under which the named properties STILL HOLD. A check that
# flags one of these demands more than its property states (false alarm).
# ----------------------------------------------------------------------------------
B = []
def ben(name, file, old, new, props, count=1):
    B.append(dict(name=name, file=file, old=old, new=new, props=props, count=count, benign=True))

ben("refill_from_reversed_batch", CM, "        rand_batch[:] = np.random.rand(2048)", "        rand_batch[:] = np.random.rand(2048)[::-1]", ["C06", "C05", "C12"])
ben("refill_two_halves", CM, "        rand_batch[:] = np.random.rand(2048)", "        rand_batch[:1024] = np.random.rand(1024)\n        rand_batch[1024:] = np.random.rand(1024)", ["C06", "C05"])
ben("linear_plain_count_min_update", CM,
    "        count = cms[row, buckets[row]]\n        if count < new_count:\n            cms[row, buckets[row]] = new_count\n\n\n@njit(\n    types.void(\n        uint32[:, :],\n        uint64[:],\n        uint64[:],\n        uint64,\n        uint64,\n        uint32,\n        types.Bytes(types.uint8, 1, \"C\"),\n        uint64,",
    "        count = cms[row, buckets[row]]\n        if count < uint_maxval - value:\n            cms[row, buckets[row]] = count + value\n        else:\n            cms[row, buckets[row]] = uint_maxval\n\n\n@njit(\n    types.void(\n        uint32[:, :],\n        uint64[:],\n        uint64[:],\n        uint64,\n        uint64,\n        uint32,\n        types.Bytes(types.uint8, 1, \"C\"),\n        uint64,",
    ["C01", "C09", "C10", "C15", "C18"])
ben("hh_replace_on_tie", HH, "            if value > lhh_count[row, col]:", "            if value >= lhh_count[row, col]:", ["C03", "C04", "C13", "C18", "C10"])
ben("log_merge_tie_rounds_up", CM, "                if delta / (vhigher - vlower) <= 0.5:", "                if delta / (vhigher - vlower) < 0.5:", ["C09", "C18", "C10"], count=2)
ben("log_add_counts_only_applied_units_at_ceiling", CM,
    "    # Track total number of elements added to the sketch\n    n_added_records[0] += uint64(value)\n\n    # This gets min_count AND updates buckets\n    min_count = _query_log8(cms, buckets, width, depth, uint_maxval, key)\n",
    "    # This gets min_count AND updates buckets\n    min_count = _query_log8(cms, buckets, width, depth, uint_maxval, key)\n    if min_count < uint_maxval:\n        n_added_records[0] += uint64(value)\n",
    ["C05", "C06", "C09"])  # not benign for C12: bulk add and single adds then disagree on n_added
ben("hh_query_ties_sorted_by_key", HH, "        return self.candidate_set.most_common(k)", "        return sorted(self.candidate_set.items(), key=lambda kv: (-kv[1], kv[0]))[:k]", ["C13", "C03", "C04", "C16"])
ben("save_extra_member_hll", HL, "            filename, args=np.array([self.p, self.seed], np.uint64), hll=self.registers", "            filename, args=np.array([self.p, self.seed], np.uint64), hll=self.registers, fmt=np.array([1])", ["C10", "C20", "C02"])
ben("death_reported_as_runtime_error", HP, "                # Now close all the queues\n                queue.close()\n                log_queue.close()", "                # Now close all the queues\n                queue.close()\n                log_queue.close()\n                raise RuntimeError(msg)", ["C19", "C08"])
ben("del_sleeps_shorter", HL, "                    sleep(0.25)", "                    sleep(0.05)", ["C16", "C02"], count=2)
ben("worker_logs_less", HP, "            end = datetime.now()\n            speed = n_records / (end - start).total_seconds()\n            log_queue.put(\n                {\n                    \"level\": \"DEBUG\",", "            end = datetime.now()\n            speed = 0.0\n            log_queue.put(\n                {\n                    \"level\": \"DEBUG\",", ["C08", "C19"])
ben("monitor_polls_faster", HP, "        sleep(1)\n        any_none = False", "        sleep(0.2)\n        any_none = False", ["C08", "C19"])


def apply(m, root):
    p = os.path.join(root, m["file"])
    s = open(p).read()
    if s.count(m["old"]) != m["count"]:
        raise SystemExit(f"mutant {m['name']}: pattern occurs {s.count(m['old'])} times, expected {m['count']}")
    open(p, "w").write(s.replace(m["old"], m["new"]))

def main():
    args = [a for a in sys.argv[1:] if not a.startswith("--")]
    opts = [a for a in sys.argv[1:] if a.startswith("--")]
    if "--list" in opts:
        for m in M: print(m["name"], m["props"])
        return
    only = None
    runs = None
    for o in opts:
        if o.startswith("--props="): only = o.split("=")[1].split(",")
        if o.startswith("--runs="): runs = o.split("=")[1]
    pool = B if "--benign" in opts else M
    sel = [m for m in pool if not args or m["name"] in args]
    report_path = os.path.join(HERE, "mutants_report.json")
    report = json.load(open(report_path)) if os.path.exists(report_path) else {}
    for m in sel:
        root = tempfile.mkdtemp(prefix="dsim-mut-")
        try:
            shutil.copytree(os.path.join(REPO, "sketchnu"), os.path.join(root, "sketchnu"))
            apply(m, root)
            for prop in m["props"]:
                if only and prop not in only: continue
                ev = tempfile.mkdtemp(prefix="dsim-mut-ev-")
                env = dict(os.environ, VERIF_REPO=root, VERIF_EVIDENCE_DIR=ev, VERIF_REPLAY_DIR=ev)
                t0 = time.time()
                cmd = [os.path.join(HERE, "check"), prop, "--tier", "quick"] + (["--runs", runs] if runs else [])
                p = subprocess.run(cmd, capture_output=True, text=True, env=env, timeout=1800)
                lines = [l for l in p.stdout.splitlines() if l.startswith(("VIOLATION", "  invariant", "KNOWN"))]
                res = {"rc": p.returncode, "wall_s": round(time.time() - t0, 1), "lines": lines[:3]}
                if p.returncode == 2: res["stderr"] = p.stderr[-600:]
                if m.get("benign"):
                    res["benign"] = True
                    res["false_alarm"] = p.returncode != 0
                report[f"{m['name']}|{prop}"] = res
                tag = ("FALSE-ALARM" if p.returncode != 0 else "ok") if m.get("benign") else ""
                print(f"{m['name']:42s} {prop} rc={p.returncode} {res['wall_s']}s {tag} {lines[1].strip() if len(lines)>1 else ''}", flush=True)
                shutil.rmtree(ev, ignore_errors=True)
        finally:
            shutil.rmtree(root, ignore_errors=True)
        json.dump(report, open(report_path, "w"), indent=1, sort_keys=True)

if __name__ == "__main__":
    main()
