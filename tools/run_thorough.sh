#!/bin/sh
# thorough tier for every property with a wall cap per property (default 900 s); evidence is
# copied to evidence_thorough/ so that the quick-tier evidence in evidence/ stays in place
cd "$(dirname "$0")/.." || exit 2
WALL="${1:-900}"
mkdir -p evidence_thorough
for p in C20 C01 C02 C03 C04 C05 C06 C09 C10 C12 C13 C15 C16 C18 C08 C19; do
  s=$(date +%s)
  VERIF_EVIDENCE_DIR=/tmp/ev_thorough ./check $p --tier thorough --wall $WALL > /tmp/run_thorough_$p.log 2>&1
  rc=$?
  e=$(date +%s)
  cp /tmp/ev_thorough/$p.json evidence_thorough/$p.json 2>/dev/null
  echo "$p rc=$rc $((e-s))s $(grep -c VIOLATION /tmp/run_thorough_$p.log) violations $(grep HARNESS /tmp/run_thorough_$p.log | head -1 | cut -c1-200)"
done
