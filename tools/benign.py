#!/usr/bin/env python3
"""Bookkeeping for property-PRESERVING changes written by independent sub-agents (the
reverse of tools/seeded.py): the checks of the named property must stay silent on them.

  tools/benign.py add <id> <src_dir> <prop> [--tests=tests/test_x.py,...]
  tools/benign.py run <id>|all [--props=C01,C02] [--tier=quick]

Verification (add), in a fresh scratch worktree of /repo HEAD: holds_demo.py exits 0 with and
without the patch, differs_demo.py exits 0 without and non-zero with it (the change is
observable), the named test files pass with it. Nothing is ever applied to /repo."""
import json, os, shutil, sys, tempfile, time

sys.path.insert(0, os.path.dirname(os.path.abspath(__file__)))
from seeded import sh, scratch_tree, drop_tree, HERE, PY  # noqa: E402

BENIGN = os.path.join(HERE, "benign")


def add(bid, src, prop, tests):
    dst = os.path.join(BENIGN, bid)
    os.makedirs(dst, exist_ok=True)
    for f in ("patch.diff", "holds_demo.py", "differs_demo.py"):
        shutil.copy(os.path.join(src, f), os.path.join(dst, f))
    d = scratch_tree()
    meta = {"id": bid, "preserves_property": prop, "verified": {}, "ran": []}
    try:
        env = dict(os.environ, PYTHONPATH=d, PYTHONWARNINGS="ignore")
        for f in ("holds_demo.py", "differs_demo.py"):
            s = open(os.path.join(dst, f)).read().replace(os.path.abspath(src), d)
            open(os.path.join(d, f), "w").write(s)
        h0, _ = sh([PY, "holds_demo.py"], cwd=d, env=env)
        d0, _ = sh([PY, "differs_demo.py"], cwd=d, env=env)
        rc, out = sh(["git", "-C", d, "apply", os.path.join(dst, "patch.diff")])
        if rc:
            raise SystemExit("patch does not apply: " + out)
        h1, ho = sh([PY, "holds_demo.py"], cwd=d, env=env)
        d1, do = sh([PY, "differs_demo.py"], cwd=d, env=env)
        meta["verified"].update(holds_without=h0, holds_with=h1, differs_without=d0, differs_with=d1,
                                differs_with_tail=do[-500:], holds_with_tail=ho[-300:])
        meta["ran"].append(f"holds_demo.py rc without/with = {h0}/{h1}; differs_demo.py rc without/with = {d0}/{d1}")
        ok = h0 == 0 and h1 == 0 and d0 == 0 and d1 != 0
        for t in tests:
            t0 = time.time()
            rc, out = sh([PY, "-m", "pytest", "-q", "-p", "no:cacheprovider", t], cwd=d, env=env, timeout=3600)
            tail = [l for l in out.splitlines() if " passed" in l or " failed" in l or "error" in l.lower()][-1:]
            meta["verified"][f"tests:{t}"] = {"rc": rc, "summary": tail, "wall_s": round(time.time() - t0)}
            meta["ran"].append(f"PYTHONPATH=. {PY} -m pytest -q -p no:cacheprovider {t}  -> rc={rc} {tail}")
            ok = ok and rc == 0
        meta["verified"]["all_confirmed"] = ok
    finally:
        drop_tree(d)
    mp = os.path.join(dst, "meta.json")
    old = json.load(open(mp)) if os.path.exists(mp) else {}
    old.update(meta)
    json.dump(old, open(mp, "w"), indent=1, sort_keys=True)
    print(json.dumps(meta["verified"], indent=1))
    return ok


def run(bid, props, tier, extra):
    dst = os.path.join(BENIGN, bid)
    mp = os.path.join(dst, "meta.json")
    meta = json.load(open(mp))
    props = props or [meta["preserves_property"]]
    root = tempfile.mkdtemp(prefix="dsim-benignrun-")
    try:
        shutil.copytree("/repo/sketchnu", os.path.join(root, "sketchnu"))
        rc, out = sh(["git", "apply", "--directory", root, "--unsafe-paths", os.path.join(dst, "patch.diff")], cwd=root)
        if rc:
            rc, out = sh(["patch", "-p1", "-d", root, "-i", os.path.join(dst, "patch.diff")])
            if rc:
                raise SystemExit("patch does not apply: " + out)
        for prop in props:
            ev = tempfile.mkdtemp(prefix="dsim-benign-ev-")
            env = dict(os.environ, VERIF_REPO=root, VERIF_EVIDENCE_DIR=ev, VERIF_REPLAY_DIR=ev)
            t0 = time.time()
            rc, out = sh([os.path.join(HERE, "check"), prop, "--tier", tier] + extra, env=env, timeout=7200)
            lines = [l for l in out.splitlines() if l.startswith(("VIOLATION", "  invariant", "  detail", "KNOWN", "HARNESS"))]
            res = {"rc": rc, "tier": tier, "wall_s": round(time.time() - t0, 1), "lines": lines[:4], "seed": os.environ.get("VERIF_SEED", "0")}
            meta.setdefault("checks", {})[f"{prop}:{tier}:seed{res['seed']}"] = res
            print(bid, prop, tier, "rc=%d" % rc, "(silent, as it must be)" if rc == 0 else "ALARM", f"{res['wall_s']}s", lines[:3])
            if rc != 0:
                keep = os.path.join("/tmp", f"benign-alarm-{bid}-{prop}")
                shutil.rmtree(keep, ignore_errors=True)
                shutil.copytree(ev, keep)
                print("  replay kept in", keep)
            shutil.rmtree(ev, ignore_errors=True)
    finally:
        shutil.rmtree(root, ignore_errors=True)
    json.dump(meta, open(mp, "w"), indent=1, sort_keys=True)


def main():
    a = sys.argv[1:]
    if a[0] == "add":
        tests = []
        for x in a:
            if x.startswith("--tests="):
                tests = x.split("=")[1].split(",")
        sys.exit(0 if add(a[1], a[2], a[3], tests) else 1)
    if a[0] == "run":
        props, tier, extra = None, "quick", []
        for x in a[2:]:
            if x.startswith("--props="):
                props = x.split("=")[1].split(",")
            elif x.startswith("--tier="):
                tier = x.split("=")[1]
            else:
                extra.append(x)
        ids = sorted(os.listdir(BENIGN)) if a[1] == "all" else [a[1]]
        for bid in ids:
            if os.path.exists(os.path.join(BENIGN, bid, "meta.json")):
                run(bid, props, tier, extra)


if __name__ == "__main__":
    main()
