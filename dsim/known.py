"""Signature predicates for known findings (see /verif/known_findings.json)."""
PREDICATES = {}
