"""Per-property modes of engine W: configuration draw, event mix and invariants.

Each checker implements exactly what its property's statement says and no more; the
oracles never call into sketchnu except through the observation points the property
names (query/__getitem__/public tables, an empty probe sketch after one add)."""
import os

import hashlib

import numpy as np

from . import boot
from .core import hexk, unhex
from .gen import CMS, LOG, U32MAX, draw_config, gen_workload, wchoice
from .models import LogRef, hll_registers
from .world import (copy_state, estimate, install_draws, loaders, make_sketch, public_params, state_bytes,
                    tables)
from .wrun import Checker, WMode

NET = {"send": 14, "deliver": 14, "dup": 3, "drop": 2, "partition": 1.5, "heal": 1.5}
DISK = {"save": 5, "crash_restart": 4}


def hist_weights(work=60, net=True, disk=True, views=False):
    w = {"work": work, "query": 5}
    if net:
        w.update(NET)
    if disk:
        w.update(DISK)
    if views:
        w.update({"attach": 4, "drop_view": 3, "drop_owner": 1})
    return w


def maybe_shared(rng, cfg, p=0.1):
    """A fraction of the runs keeps every replica in a shared-memory block, with attached
    views (attach_existing_shm / helpers.attach_shared_memory, as parallel_add's workers
    do) taking part in the history: the oracles keep reading the owner."""
    if rng.random() < p:
        cfg["shared"] = True
        cfg["weights"].update({"attach": 6, "drop_view": 3, "drop_owner": 1})


def changed_node(ev, info):
    """index of the node whose sketch may have changed, or None"""
    if info is None:
        return None
    return info.get("node")


# ==================================================================================
# C01 — linear count-min: truth <= estimate <= collision bound on every history
# ==================================================================================
class C01Checker(Checker):
    prop = "C01"

    def after(self, w, ev, ctx, info):
        i = changed_node(ev, info)
        if i is None:
            return
        n = w.nodes[i]
        if n.unknown or n.primary is None:
            return
        sk = w.observer(n.primary)
        truth = n.truth
        live = None
        if ev["op"] == "query" and w.fam in CMS:
            live = (unhex(ev["key"]), int(info["res"]))
            w.probes["live_query_events"] += 1
        totals = None
        wild = 0
        for ident in w.universe:
            est = int(sk.query(ident))
            alias = int(sk[ident])
            if live is not None and live[0] == ident and live[1] != est:
                self.fail("live_query_ne_table_estimate", f"node={i} key={ident.hex()} query() on the live object returned {live[1]}, the table gives {est}")
            if alias != est:
                self.fail("getitem_ne_query", f"key={ident.hex()} sketch[key]={alias} query={est}")
            t = truth.get(ident, 0)
            if est < min(t, U32MAX):
                self.fail("lower_bound", f"node={i} key={ident.hex()} est={est} true={t} after {ev['op']}")
            cells = w.owner_cells(ident)
            if cells is False:
                continue
            if totals is None:
                totals, wild = w.cell_totals(truth)
            best = None
            exact_row = False
            for r, col in enumerate(cells):
                tot = totals[r].get(col, 0) + wild
                if best is None or tot < best:
                    best = tot
                if tot == t:
                    exact_row = True
            bound = min(best, U32MAX)
            if est > bound:
                self.fail("upper_bound", f"node={i} key={ident.hex()} est={est} classic_cm={bound} true={t}")
            if exact_row:
                w.probes["collision_free_row_exact"] += 1
                if est != min(t, U32MAX):
                    self.fail("collision_free_exact", f"node={i} key={ident.hex()} est={est} true={t}")
            else:
                w.probes["key_collides_in_every_row"] += 1
            if t >= U32MAX:
                w.probes["truth_at_or_past_ceiling"] += 1


class C01(WMode):
    prop = "C01"

    def draw(self, rng):
        cfg = draw_config(rng, "linear", wmax=64, dmax=8, nodes_max=4, events=(15, 60), run_index=getattr(self, "run_index", None))
        cfg["weights"] = hist_weights()
        cfg["mult"] = rng.choice([
            {"one": 3, "small": 3, "mid": 2, "zero": 1, "ceil": 1, "half": 1, "huge": 1, "pow2": 1},
            {"one": 1, "small": 1, "ceil": 3, "half": 3, "huge": 2, "pow2": 1},
            {"one": 4, "small": 4, "zero": 1, "pow2s": 1},
        ])
        maybe_shared(rng, cfg)
        return cfg

    def checker(self, cfg):
        return C01Checker()

    def nontrivial(self, w):
        c = w.counters
        return (c["deliver"] + c["crash_restart"] > 0) or w.probes["key_collides_in_every_row"] > 0


# ==================================================================================
# C02 — HyperLogLog is a function of the set of distinct keys
# ==================================================================================
class C02Checker(Checker):
    prop = "C02"

    def __init__(self, cfg):
        self.p = cfg["p"]
        self.seed = cfg["seed"]
        self.cache = {}
        self.fresh = None

    def ref(self, keys):
        return bytes(hll_registers(keys, self.p, self.seed, self.cache))

    def check_node(self, w, i, why, force_query=False):
        n = w.nodes[i]
        if n.primary is None:
            return
        got = n.primary.registers.tobytes()
        want = self.ref(n.truth)
        if got != want:
            bad = [j for j in range(len(want)) if got[j] != want[j]][:4]
            self.fail("registers_ne_reference",
                      f"node={i} after {why}: registers differ from reference at {[(j, got[j], want[j]) for j in bad]}"
                      f" with {len(n.truth)} distinct keys")
        mx = max(want) if want else 0
        if mx >= 64 - self.p + 1:
            w.probes["register_at_maximum_rank"] += 1
        if mx >= 33:
            w.probes["rank_ge_33"] += 1
        if force_query or w.n_events % 3 == 0:
            if self.fresh is None:
                self.fresh = make_sketch(w.cfg, shared=False)
            fr = self.fresh
            fr.registers[:] = 0
            for k in sorted(n.truth):
                fr.add(k)
            a, b = n.primary.query(), fr.query()
            if not (a == b):
                self.fail("query_ne_fresh_sketch", f"node={i} query()={a!r} fresh-sketch query()={b!r}")
            if not n.truth and a != 0.0:
                self.fail("query_ne_fresh_sketch", f"empty sketch query()={a!r}")

    def after(self, w, ev, ctx, info):
        i = changed_node(ev, info)
        if i is None:
            return
        self.check_node(w, i, ev["op"])
        if ev["op"] == "deliver" and not info["other_unchanged"]:
            self.fail("merge_mutated_operand", f"deliver {ev['id']}: the merged-in sketch changed")
        if ev["op"] == "converge_check":
            pass

    def final(self, w):
        """After heal: two different anti-entropy trees over all live nodes must give the
        union, byte-identical (commutative / associative / idempotent)."""
        live = [n for n in w.nodes if n.primary is not None]
        if not live:
            return
        union = set()
        for n in live:
            union |= n.truth
        want = self.ref(union)
        order = w.cfg.get("final_orders") or [list(range(len(live))), list(reversed(range(len(live))))]
        results = []
        for perm in order:
            clones = []
            for j in perm:
                if j >= len(live):
                    continue
                c = make_sketch(w.cfg, shared=False)
                c.registers[:] = live[j].primary.registers
                clones.append(c)
            # pairwise tree in the given order, with one duplicated delivery
            while len(clones) > 1:
                nxt = []
                for a in range(0, len(clones) - 1, 2):
                    clones[a].merge(clones[a + 1])
                    clones[a].merge(clones[a + 1])  # idempotence
                    nxt.append(clones[a])
                if len(clones) % 2:
                    nxt.append(clones[-1])
                clones = nxt
            results.append(clones[0].registers.tobytes())
        for r in results:
            if r != want:
                self.fail("converged_ne_union", f"anti-entropy result differs from reference of the union "
                                                f"({len(union)} keys)")
        if len(set(results)) != 1:
            self.fail("merge_order_dependent", "two merge trees over the same replicas gave different registers")
        w.probes["final_convergence_checked"] += 1


class C02(WMode):
    prop = "C02"

    def draw(self, rng):
        cfg = draw_config(rng, "hll", nodes_max=5, events=(15, 60), run_index=getattr(self, "run_index", None))
        cfg["weights"] = hist_weights(work=55)
        cfg["mult"] = {"one": 2, "small": 2, "mid": 1, "zero": 1, "huge": 1}
        n = cfg["n_nodes"]
        perm = list(range(n))
        rng.shuffle(perm)
        perm2 = list(range(n))
        rng.shuffle(perm2)
        cfg["final_orders"] = [perm, perm2, list(range(n))]
        maybe_shared(rng, cfg)
        return cfg

    def checker(self, cfg):
        return C02Checker(cfg)

    def final_events(self, rng, w, gs):
        # faults stop: heal, then every in-flight message is delivered
        evs = []
        if gs.groups is not None:
            gs.groups = None
            evs.append({"op": "heal"})
        for mid in list(w.msgs):
            evs.append({"op": "deliver", "id": mid, "via": 0})
        return evs

    def nontrivial(self, w):
        c = w.counters
        return c["deliver"] + c["crash_restart"] + c["dup"] > 0




# ==================================================================================
# C03 / C04 — heavy hitters: never over-count; always report a cell-dominating key
# ==================================================================================
QUERY_KS = (1, 2, 3, 10 ** 6)


def hh_query(sk, k, t):
    from .world import api

    return api("query", sk.query, k, t)


class HHChecker(Checker):
    """Shared run shape; `which` selects the invariant that is attributed."""

    def __init__(self, which):
        self.prop = which

    def t_eff(self, sk):
        return int(float(sk.phi) * int(sk.n_added()))

    def after(self, w, ev, ctx, info):
        i = changed_node(ev, info)
        if i is None:
            return
        n = w.nodes[i]
        if n.primary is None or n.unknown:
            return
        sk = n.primary
        truth = n.truth
        if self.prop == "C03":
            self.c03(w, i, n, sk, truth, ev)
        else:
            self.c04(w, i, n, sk, truth, ev)

    # -- C03 ----------------------------------------------------------------------
    def c03(self, w, i, n, sk, truth, ev):
        if not getattr(w, "_alias_probed", False) and len(w.universe) >= 2:
            w._alias_probed = True
            us = list(w.universe)
            for a in us:
                for b in us:
                    if len(a) < len(b) and b[: len(a)] == a and not any(b[len(a):]):
                        ca, cb = w.owner_cells(a), w.owner_cells(b)
                        if ca and cb and any(x == y for x, y in zip(ca, cb)):
                            w.probes["nul_aliased_identities_share_a_cell"] += 1
            if any(len(unhex(h)) > w.mkl for h in w.cfg["pool"]):
                w.probes["pool_has_key_longer_than_max_key_len"] += 1
        for ident in w.universe:
            c = int(sk[ident])
            t = truth.get(ident, 0)
            if c > t:
                inv = "never_added_key_has_count" if t == 0 else "overcount_getitem"
                self.fail(inv, f"node={i} hh[{ident.hex()}]={c} true={t} after {ev['op']}")
        e = w.n_events
        some = [t for t in truth.values() if 0 < t <= U32MAX]
        combos = [(QUERY_KS[e % 4], (None, 0, 1, None)[(e // 4) % 4]), (10 ** 6, 0)]
        if some and e % 3 == 0:
            combos.append((QUERY_KS[(e + 1) % 4], some[e % len(some)]))
        for k, t in combos:
            w.probes["query_answers_checked"] += 1
            for key, count in hh_query(sk, k, t):
                tv = truth.get(key, 0)
                if int(count) > tv:
                    inv = "never_added_key_reported" if tv == 0 else "overcount_query"
                    self.fail(inv, f"node={i} query({k},{t}) returned ({key.hex()},{int(count)}) true={tv}")
                if len(key) > w.mkl:
                    self.fail("reported_key_longer_than_max_key_len", f"{key.hex()}")

    # -- C04 ----------------------------------------------------------------------
    def c04(self, w, i, n, sk, truth, ev):
        N = n.mass
        if N >= U32MAX:
            w.probes["c04_skipped_saturation_possible"] += 1
            return
        teff = self.t_eff(sk)
        e = w.n_events
        totals, wild = w.cell_totals(truth)
        for ident, f in truth.items():
            if f <= 0:
                continue
            B = None
            cells = w.owner_cells(ident)
            for r in range(w.cfg["depth"]):
                W = (N if cells is False else totals[r].get(cells[r], 0) + wild)
                b = 2 * f - W
                if B is None or b > B:
                    B = b
            if B is None or B <= 0:
                continue
            w.probes["dominating_key_checked"] += 1
            if B < f:
                w.probes["dominating_key_with_collisions"] += 1
            c = int(sk[ident])
            if c < B:
                self.fail("dominant_key_undercounted", f"node={i} hh[{ident.hex()}]={c} < bound={B} (f={f}, N={N}) after {ev['op']}")
            ts = [(0, 1, B)[e % 3]]
            if B >= teff:
                ts.append(None)
            for t in ts:
                res = hh_query(sk, 10 ** 6, t)
                hit = [int(cn) for k_, cn in res if k_ == ident]
                if not hit or hit[0] < B:
                    self.fail("dominant_key_not_reported", f"node={i} query(inf,{t}) lacks {ident.hex()} with count>={B}: got {hit} (f={f}, N={N})")
            if 2 * f > N:
                w.probes["majority_key_checked"] += 1
                res = hh_query(sk, 1, 0)
                if not res or res[0][0] != ident or int(res[0][1]) < 2 * f - N:
                    self.fail("majority_key_not_first", f"node={i} query(1,0)={[(k_.hex(), int(c_)) for k_, c_ in res]} expected {ident.hex()} with count>={2*f-N} (f={f}, N={N})")


class HHMode(WMode):
    def __init__(self, prop):
        self.prop = prop

    def draw(self, rng):
        cfg = draw_config(rng, "hh", wmax=16, nodes_max=4, events=(12, 50), run_index=getattr(self, "run_index", None))
        cfg["weights"] = hist_weights()
        if self.prop == "C03":
            cfg["mult"] = rng.choice([
                {"one": 3, "small": 4, "mid": 2, "zero": 1, "pow2s": 1},
                {"one": 2, "small": 2, "mid": 1, "zero": 1, "ceil": 1, "half": 1, "huge": 1, "pow2": 1},
            ])
        else:
            cfg["mult"] = {"one": 3, "small": 4, "mid": 2, "zero": 1, "pow2s": 1}
        # width-1/depth-1 corner: all orders of a small weighted multiset are sampled densely
        if rng.random() < 0.15:
            cfg["width"], cfg["depth"], cfg["n_nodes"] = 1, 1, rng.randrange(1, 3)
        maybe_shared(rng, cfg)
        return cfg

    def checker(self, cfg):
        return HHChecker(self.prop)

    def nontrivial(self, w):
        c = w.counters
        return c["deliver"] + c["crash_restart"] > 0 or w.probes["dominating_key_with_collisions"] > 0


# ==================================================================================
# C13 — query(k, threshold) is the exact, fresh top-k
# ==================================================================================
class C13Checker(Checker):
    prop = "C13"

    def after(self, w, ev, ctx, info):
        if ev["op"] != "query" or info is None:
            return
        n = w.nodes[info["node"]]
        sk = info["sk"]
        k, t = ev["k"], ev.get("t")
        res = [(bytes(a), int(b)) for a, b in info["res"]]
        self.check_answer(w, n, sk, k, t, res)

    def table_answer(self, sk, teff):
        """Unbounded answer derived from the public tables."""
        keys = []
        seen = set()
        cnt = sk.lhh_count
        for r in range(cnt.shape[0]):
            for c in range(cnt.shape[1]):
                if int(cnt[r, c]) > 0:
                    key = bytes(sk.lhh[r, c, : int(sk.key_lens[r, c])])
                    if key not in seen:
                        seen.add(key)
                        keys.append(key)
        out = []
        for key in keys:
            h = int(sk[key])
            if h >= teff and h >= 1:
                out.append((key, h))
        return out

    def check_answer(self, w, n, sk, k, t, res):
        teff = int(float(sk.phi) * int(sk.n_added())) if t is None else int(t)
        if len(res) > k:
            self.fail("more_than_k", f"query({k},{t}) returned {len(res)} pairs")
        keys = [a for a, _ in res]
        if len(set(keys)) != len(keys):
            self.fail("duplicate_keys", f"query({k},{t}) -> {res}")
        counts = [b for _, b in res]
        if any(counts[j] < counts[j + 1] for j in range(len(counts) - 1)):
            self.fail("not_sorted", f"query({k},{t}) counts {counts}")
        for key, cnt in res:
            if len(key) > int(sk.max_key_len):
                # hh[key] raises for such a key: the sketch cannot hold it at all
                self.fail("reported_key_longer_than_max_key_len", f"query({k},{t}) reports ({key.hex()},{cnt}); max_key_len={int(sk.max_key_len)}")
            h = int(sk[key])
            if cnt != h:
                self.fail("count_ne_getitem", f"query({k},{t}) reports ({key.hex()},{cnt}) but hh[key]={h}")
            if cnt < teff:
                self.fail("below_threshold", f"query({k},{t}) reports ({key.hex()},{cnt}) < threshold {teff}")
        want = self.table_answer(sk, teff)
        want_counts = sorted((h for _, h in want), reverse=True)
        got_pos = [c for c in counts if c >= 1]
        if got_pos != want_counts[: len(got_pos)] or (len(got_pos) < min(k, len(want_counts)) and len(res) < k):
            self.fail("not_the_top_k_of_the_tables", f"query({k},{t}) counts {counts}; tables give {want_counts[:k+2]} (threshold {teff})")
        if len(res) < min(k, len(want_counts)):
            self.fail("not_the_top_k_of_the_tables", f"query({k},{t}) returned {len(res)} pairs; tables hold {len(want_counts)} candidates >= {teff}")
        if k >= 10 ** 6 and not n.unknown:
            have = set(keys)
            for ident in w.universe:
                if n.truth.get(ident, 0) > 0:
                    h = int(sk[ident])
                    if h >= max(teff, 1) and ident not in have:
                        self.fail("added_key_missing", f"query(inf,{t}) lacks {ident.hex()} with hh[key]={h} >= {max(teff,1)}")
        # freshness oracle: a freshly loaded copy asked the same question
        path = w._save_to(sk, 0)
        from .world import api

        fresh = api("load", loaders("hh")["class"], path, False)
        fres = [(bytes(a), int(b)) for a, b in api("query", fresh.query, k, t)]
        os.unlink(path)
        fcounts = [b for _, b in fres]
        if fcounts != counts:
            w.probes["stale_answer_detected"] += 1
            self.fail("stale_vs_fresh_copy", f"query({k},{t}) counts {counts}; freshly loaded copy answers {fcounts}")
        if counts:
            last = counts[-1]
            if {a for a, b in res if b > last} != {a for a, b in fres if b > last}:
                self.fail("stale_vs_fresh_copy", f"query({k},{t}) keys differ from the freshly loaded copy: {res} vs {fres}")
        w.probes["queries_checked"] += 1


class C13(WMode):
    prop = "C13"

    def draw(self, rng):
        cfg = draw_config(rng, "hh", wmax=8, nodes_max=3, events=(15, 60), run_index=getattr(self, "run_index", None), thr_shared=True)
        cfg["shared"] = rng.random() < 0.3 or cfg.get("thr", {}).get("dim") == "shm_multiple"
        w = hist_weights(work=40, views=cfg["shared"])
        w["query"] = 40
        cfg["weights"] = w
        cfg["mult"] = {"one": 3, "small": 4, "mid": 1, "zero": 1}
        return cfg

    def checker(self, cfg):
        return C13Checker()

    def gen(self, rng, w, gs):
        kind = wchoice(rng, w.cfg["weights"])
        if kind != "query":
            from .gen import gen_event

            wts = dict(w.cfg["weights"])
            wts["query"] = 0
            return gen_event(rng, w, gs, wts, w.cfg["mult"])
        i = rng.randrange(len(w.nodes))
        n = w.nodes[i]
        via = rng.randrange(0, len(n.views) + 1) if n.views else 0
        prev = getattr(gs, "last_query", None)
        r = rng.random()
        if prev is not None and r < 0.3:
            # immediate repeat: same node/route/threshold (cache hit path) possibly other k
            ev = dict(prev)
            if rng.random() < 0.5:
                ev["k"] = rng.choice(QUERY_KS)
            w.probes["repeat_query_same_threshold"] += 1
        elif prev is not None and r < 0.5:
            ev = dict(prev)
            ev["t"] = rng.choice([None, 0, 1, 2, 3, 5, U32MAX])
            w.probes["repeat_query_changed_threshold"] += 1
        else:
            total = int(n.primary.n_added()) if n.primary is not None else 0
            t = rng.choice([None, None, 0, 1, 2, rng.randrange(0, max(2, min(total, U32MAX) + 1)), U32MAX])
            ev = {"op": "query", "node": i, "via": via, "k": rng.choice(QUERY_KS), "t": t}
        gs.last_query = ev
        gs.last = "query"
        return ev

    def nontrivial(self, w):
        return w.probes["queries_checked"] > 0 and (w.counters["deliver"] + w.counters["crash_restart"] > 0 or w.probes["repeat_query_same_threshold"] > 0)


# ==================================================================================
# C05 — an add raises the key's estimate by its multiplicity and nothing past it
# ==================================================================================
class C05Checker(Checker):
    prop = "C05"

    def before(self, w, ev):
        if ev["op"] != "add":
            return None
        i = ev.get("node")
        if i is None or not (0 <= i < len(w.nodes)) or w.nodes[i].primary is None:
            return None
        sk = w.party(w.nodes[i], ev.get("via", 0))
        key = unhex(ev["key"])
        w.note_key(key)
        ob = w.observer(sk)
        est = {u: ob.query(u) for u in w.universe}
        ctx = {"est": est, "tab": sk.cms.copy(), "nadd": int(sk.n_added()), "key": key, "v": ev.get("v", 1)}
        if w.fam in LOG:
            cells = w.owner_cells(key)
            if cells is not False:
                ctx["c"] = min(int(sk.cms[r, c]) for r, c in enumerate(cells))
                ctx["cells"] = cells
        return ctx

    def after(self, w, ev, ctx, info):
        if ctx is None or info is None:
            return
        sk = info["sk"]
        key, v = ctx["key"], ctx["v"]
        old = ctx["est"]
        ob = w.observer(sk)
        new = {u: ob.query(u) for u in w.universe}
        ek0, ek1 = old[key], new[key]
        dn = int(sk.n_added()) - ctx["nadd"]
        if w.fam == "linear":
            want = min(int(ek0) + v, U32MAX)
            if int(ek1) != want:
                self.fail("linear_estimate_not_old_plus_v", f"add({key.hex()},{v}): est {ek0} -> {ek1}, expected {want}")
            if int(ek0) + v <= U32MAX:
                if dn != v:
                    self.fail("n_added_not_grown_by_v", f"add({key.hex()},{v}): n_added grew by {dn}")
            else:
                w.probes["add_cut_short_by_ceiling"] += 1
                if not (0 <= dn <= v):
                    self.fail("n_added_out_of_range", f"add({key.hex()},{v}) cut short: n_added grew by {dn}")
        else:
            at_ceiling = "cells" in ctx and min(int(sk.cms[r, c]) for r, c in enumerate(ctx["cells"])) >= int(sk.uint_maxval)
            if at_ceiling and "c" in ctx and ctx["c"] < int(sk.uint_maxval) and v >= 1:
                # ended on the ceiling, but was it cut short? Not if every unit was consumed: a
                # single unit applied to a counter below the ceiling, or v units that advanced
                # the counter by v steps (the last one landing on the ceiling)
                c1_ = min(int(sk.cms[r, c]) for r, c in enumerate(ctx["cells"]))
                if v == 1 or c1_ - ctx["c"] == v:
                    at_ceiling = False
                    w.probes["add_landing_exactly_on_the_ceiling"] += 1
            if at_ceiling or "cells" not in ctx:
                # the add may have been cut short by the counter ceiling: the statement then
                # only bounds the growth
                if not (0 <= dn <= v):
                    self.fail("n_added_out_of_range", f"add({key.hex()},{v}): n_added grew by {dn}")
                w.probes["add_cut_short_by_ceiling"] += 1 if at_ceiling else 0
            elif dn != v:
                self.fail("n_added_not_grown_by_v", f"add({key.hex()},{v}): n_added grew by {dn}")
            if "c" in ctx:
                c0 = ctx["c"]
                c1 = min(int(sk.cms[r, c]) for r, c in enumerate(ctx["cells"]))
                nr = int(sk.num_reserved)
                s = c1 - c0
                if not (0 <= s <= v):
                    self.fail("log_counter_step_out_of_range", f"add({key.hex()},{v}): smallest counter {c0} -> {c1}")
                if c0 + v <= nr + 1:
                    if s != v or float(ek1) != float(ek0) + v:
                        self.fail("log_not_exact_in_reserved_range", f"add({key.hex()},{v}): counter {c0} -> {c1}, est {ek0} -> {ek1} (num_reserved={nr})")
                    w.probes["log_add_in_reserved_range"] += 1
                else:
                    if c1 < min(c0 + v, nr + 1):
                        self.fail("log_not_exact_in_reserved_range", f"add({key.hex()},{v}): counter {c0} -> {c1} below num_reserved+1={nr+1}")
                    w.probes["log_add_in_probabilistic_range"] += 1
        for u in w.universe:
            if u == key:
                continue
            if new[u] < old[u]:
                self.fail("other_estimate_decreased", f"add({key.hex()},{v}): est[{u.hex()}] {old[u]} -> {new[u]}")
            if new[u] > max(old[u], ek1):
                self.fail("other_estimate_overshoots", f"add({key.hex()},{v}): est[{u.hex()}] {old[u]} -> {new[u]} > max(old, key's new {ek1})")
        diff = ctx["tab"] != sk.cms
        per_row = diff.sum(axis=1)
        if (per_row > 1).any():
            self.fail("more_than_one_counter_per_row_changed", f"add({key.hex()},{v}): changed cells per row {per_row.tolist()}")
        if (sk.cms < ctx["tab"]).any():
            self.fail("counter_decreased", f"add({key.hex()},{v})")
        if diff.any() and int(per_row.sum()) < diff.shape[0]:
            w.probes["conservative_update_skipped_a_row"] += 1


class C05(WMode):
    prop = "C05"

    def draw(self, rng):
        fam = rng.choice(["linear", "linear", "log16", "log8", "log8"])
        cfg = draw_config(rng, fam, wmax=16, nodes_max=3, events=(15, 50), run_index=getattr(self, "run_index", None))
        cfg["weights"] = hist_weights(work=70)
        cfg["entry_weights"] = {"add": 8, "update_list": 1, "update_dict": 1, "add_ngram": 1, "update_ngram": 0.5}
        if fam == "linear":
            cfg["mult"] = rng.choice([{"one": 2, "small": 3, "mid": 2, "zero": 1, "ceil": 1, "half": 2, "huge": 1, "pow2": 1},
                                      {"one": 1, "small": 1, "ceil": 3, "half": 3, "huge": 2, "pow2": 1}])
        else:
            cfg["mult"] = {"one": 3, "small": 4, "mid": 2, "zero": 1, "pow2s": 1}
        if fam == "linear":
            maybe_shared(rng, cfg)
        return cfg

    def checker(self, cfg):
        return C05Checker()

    def gen(self, rng, w, gs):
        """Besides the common generator: for log sketches a directed 'landing' add, whose
        multiplicity is the distance of the key's smallest counter to the ceiling, under draws
        that are all 0.0 (every unit advances): the add consumes all its units and ends
        exactly on the ceiling - not cut short."""
        from .gen import gen_event

        if w.fam in LOG and rng.random() < 0.05 and w.universe:
            i = rng.randrange(len(w.nodes))
            n = w.nodes[i]
            ident = rng.choice(list(w.universe))
            cells = w.owner_cells(ident) if n.primary is not None else False
            if cells:
                mx = int(n.primary.uint_maxval)
                c0 = min(int(n.primary.cms[r, c]) for r, c in enumerate(cells))
                d = mx - c0
                if 1 <= d <= 1500:
                    return {"op": "add", "node": i, "via": 0, "key": hexk(ident), "v": d - rng.choice([0, 0, 0, 1]), "ds": rng.getrandbits(31),
                            "ptr": 0, "fd": 0.0}
        return gen_event(rng, w, gs, self.weights(w.cfg), self.mult(w.cfg))

    def nontrivial(self, w):
        return w.counters["add"] > 0


# ==================================================================================
# C09 — merging count-min sketches adds the counts cell by cell
# ==================================================================================
_dec_tables = {}


def decode_table(base, nr, maxval):
    key = (base, nr, maxval)
    t = _dec_tables.get(key)
    if t is None:
        if len(_dec_tables) > 8:
            _dec_tables.clear()
        c = np.arange(maxval + 1, dtype=np.float64)
        with np.errstate(over="ignore"):
            t = np.where(c <= nr, c, (np.power(base, np.maximum(c - nr, 0.0)) - 1.0) / (base - 1.0) + nr)
        _dec_tables[key] = t
    return t


class C09Checker(Checker):
    prop = "C09"

    def check_log_cells(self, w, sk, A, B, R):
        """Vectorised per-cell spec of the statement for log counters."""
        base, nr, mx = float(sk.base), int(sk.num_reserved), int(sk.uint_maxval)
        mc = float(int(sk.max_count))
        dec = decode_table(base, nr, mx)
        a, b, x = A.astype(np.int64), B.astype(np.int64), R.astype(np.int64)
        v = dec[a] + dec[b]

        def first(mask):
            r, c = [int(t[0]) for t in np.nonzero(mask)]
            return r, c, int(a[r, c]), int(b[r, c]), int(x[r, c]), float(v[r, c])

        bad = x < np.maximum(a, b)
        if bad.any():
            r, c, ai, bi, xi, vi = first(bad)
            self.fail("merged_counter_below_input", f"cell[{r},{c}]: merge({ai},{bi}) -> {xi}")
        low = v <= nr
        bad = low & (x != v.astype(np.int64))
        if bad.any():
            r, c, ai, bi, xi, vi = first(bad)
            self.fail("log_reserved_range_not_exact_sum", f"cell[{r},{c}]: merge({ai},{bi}) -> {xi}, expected {int(vi)}")
        sat = (~low) & (v >= mc)
        bad = sat & (x != mx)
        if bad.any():
            r, c, ai, bi, xi, vi = first(bad)
            self.fail("log_not_saturated_at_max_count", f"cell[{r},{c}]: merge({ai},{bi}) -> {xi}, decoded sum {vi} >= max_count {mc}")
        if sat.any():
            w.probes["merge_saturated_cell"] += int(sat.sum())
        mid = (~low) & (~sat)
        if mid.any():
            hi = np.clip(np.searchsorted(dec, v, side="right"), 1, mx)
            lo = hi - 1
            best = np.minimum(np.abs(dec[lo] - v), np.abs(dec[hi] - v))
            got = np.abs(dec[np.clip(x, 0, mx)] - v)
            bad = mid & (got > best * (1 + 1e-9) + 1e-9 * np.maximum(v, 1.0))
            if bad.any():
                r, c, ai, bi, xi, vi = first(bad)
                near = int(lo[r, c]) if abs(dec[lo[r, c]] - vi) <= abs(dec[hi[r, c]] - vi) else int(hi[r, c])
                self.fail("log_not_nearest_counter", f"cell[{r},{c}]: merge({ai},{bi}) -> {xi} decoding to {float(dec[xi])!r}; decoded sum {vi!r}; counter {near} decodes to {float(dec[near])!r} (nearer)")
            w.probes["merge_cells_in_log_range"] += int(mid.sum())
        w.probes["log_pairs_checked"] += int(a.size)

    def after(self, w, ev, ctx, info):
        if ev["op"] != "deliver" or info is None:
            return
        a_pre, b_pre, a_post = info["a_pre"], info["b_pre"], info["a_post"]
        if not info["other_unchanged"]:
            self.fail("merged_in_sketch_changed", f"deliver {ev['id']}")
        for j, name in ((0, "n_added"), (1, "n_records")):
            want = (int(a_pre[1][j]) + int(b_pre[1][j])) & ((1 << 64) - 1)
            if int(a_post[1][j]) != want:
                self.fail(f"{name}_not_sum", f"{int(a_pre[1][j])} + {int(b_pre[1][j])} -> {int(a_post[1][j])}")
        A, B, R = a_pre[0], b_pre[0], a_post[0]
        n = w.nodes[info["node"]]
        sk = n.primary
        if w.fam == "linear":
            want = np.minimum(A.astype(np.uint64) + B.astype(np.uint64), U32MAX).astype(np.uint32)
            if not np.array_equal(want, R):
                r, c = [int(x[0]) for x in np.nonzero(want != R)]
                self.fail("linear_cell_not_saturating_sum", f"cell[{r},{c}]: {int(A[r,c])} + {int(B[r,c])} -> {int(R[r,c])}, expected {int(want[r,c])}")
            if (want == U32MAX).any():
                w.probes["merge_saturated_cell"] += 1
        else:
            self.check_log_cells(w, sk, A, B, R)
        # commutativity, neutral element (on clones, outside the history)
        X = make_sketch(w.cfg)
        Y = make_sketch(w.cfg)
        for t, src in ((X, a_pre), (Y, b_pre)):
            for dst, arr in zip(tables(t, w.fam), src):
                np.copyto(dst, arr)
        Y.merge(X)
        if state_bytes(Y, w.fam) != b"".join(a.tobytes() for a in a_post):
            self.fail("merge_not_commutative", f"deliver {ev['id']}: b.merge(a) differs from a.merge(b)")
        E = make_sketch(w.cfg)
        before = state_bytes(Y, w.fam)
        Y.merge(E)
        if state_bytes(Y, w.fam) != before:
            self.fail("merging_empty_changed_state", f"deliver {ev['id']}")
        if w.fam == "linear":
            for dst, arr in zip(tables(X, w.fam), a_pre):
                np.copyto(dst, arr)
            for dst, arr in zip(tables(E, w.fam), b_pre):
                np.copyto(dst, arr)
            ob = w.observer(sk)
            for u in w.universe:
                ea, eb, em = int(X.query(u)), int(E.query(u)), int(ob.query(u))
                # estimate through the merged table (a_post)
                if em < min(ea + eb, U32MAX):
                    self.fail("merged_estimate_below_sum", f"key {u.hex()}: {ea} + {eb} -> {em}")
        w.probes["merges_checked"] += 1


def near_vals(rng, fam, cfg):
    mx = {"linear": U32MAX, "log16": 65535, "log8": 255}[fam]
    nr = cfg.get("num_reserved", 0)
    pool = [0, 0, 1, 2, mx, mx - 1, mx - 2, mx // 2, mx // 2 + 1, nr, max(nr - 1, 0), min(nr + 1, mx), min(nr + 2, mx), nr // 2]
    r = rng.random()
    if r < 0.6:
        return rng.choice(pool)
    return rng.randrange(0, mx + 1)


class C09(WMode):
    prop = "C09"

    def draw(self, rng):
        fam = rng.choice(["linear", "log16", "log8", "log8"])
        cfg = draw_config(rng, fam, wmax=16, nodes_max=4, events=(12, 40), run_index=getattr(self, "run_index", None))
        cfg["capture_merge"] = True
        r = rng.random()
        cfg["sub"] = "history"
        if fam == "log8" and r < 0.02:
            cfg.update(width=256, depth=256, n_nodes=2, n_events=0, sub="all_pairs")
        elif fam == "log16" and r < 0.02:
            cfg.update(width=256, depth=256, n_nodes=2, n_events=0, sub="all_vs_empty")
        elif fam in ("log16", "log8") and r < (0.10 if fam == "log16" else 0.05):
            cfg.update(width=256, depth=256, n_nodes=2, n_events=0, sub="random_pairs", gseed=rng.getrandbits(31))
        elif r < 0.6:
            cfg["sub"] = "injected"
        w = hist_weights(work=45, disk=False)
        if cfg["sub"] == "injected":
            w["inject"] = 25
        cfg["weights"] = w
        if fam == "linear":
            cfg["mult"] = {"one": 2, "small": 3, "mid": 2, "zero": 1, "ceil": 1, "half": 2, "huge": 1}
        else:
            cfg["mult"] = {"one": 3, "small": 4, "mid": 2, "zero": 1}
        return cfg

    def checker(self, cfg):
        return C09Checker()

    def gen(self, rng, w, gs):
        from .gen import gen_event

        kind = wchoice(rng, w.cfg["weights"])
        if kind == "inject":
            i = rng.randrange(len(w.nodes))
            d, wd = w.cfg["depth"], w.cfg["width"]
            cells = [[rng.randrange(d), rng.randrange(wd), near_vals(rng, w.fam, w.cfg)] for _ in range(rng.randrange(1, min(2 * d * wd, 256) + 1))]
            ev = {"op": "inject", "node": i, "cells": cells}
            if rng.random() < 0.3:
                ev["nrec"] = rng.choice([0, 1, 5, rng.getrandbits(40)])
                ev["nadd"] = rng.choice([0, 1, rng.getrandbits(50)])
            return ev
        wts = dict(w.cfg["weights"])
        wts["inject"] = 0
        return gen_event(rng, w, gs, wts, w.cfg["mult"])

    def final_events(self, rng, w, gs):
        sub = w.cfg["sub"]
        if sub == "all_pairs":
            return [{"op": "inject", "node": 0, "grid": "row"}, {"op": "inject", "node": 1, "grid": "col"},
                    {"op": "send", "src": 1, "dst": 0, "kind": "live", "id": 10 ** 6}, {"op": "deliver", "id": 10 ** 6, "via": 0}]
        if sub == "all_vs_empty":
            return [{"op": "inject", "node": 0, "grid": "seq"}, {"op": "inject", "node": 1, "grid": "zero"},
                    {"op": "send", "src": 1, "dst": 0, "kind": "live", "id": 10 ** 6}, {"op": "deliver", "id": 10 ** 6, "via": 0},
                    {"op": "inject", "node": 0, "grid": "zero"}, {"op": "inject", "node": 1, "grid": "seq"},
                    {"op": "send", "src": 1, "dst": 0, "kind": "file", "id": 10 ** 6 + 1}, {"op": "deliver", "id": 10 ** 6 + 1, "via": 0}]
        thr = w.cfg.get("thr")
        if sub != "random_pairs" and thr is not None and thr["dim"] in ("cells", "table_bytes") and len(w.nodes) >= 2 \
                and w.cfg["width"] * w.cfg["depth"] > 4096:
            # a shape sized around a harvested constant: one merge of two fully random tables
            # looks at every counter of that shape
            g = rng.getrandbits(31)
            return [{"op": "inject", "node": 0, "grid": "rand", "gseed": g, "gdist": rng.choice(["log", "uniform", "low"])},
                    {"op": "inject", "node": 1, "grid": "rand", "gseed": g + 1, "gdist": rng.choice(["log", "uniform", "low"])},
                    {"op": "send", "src": 1, "dst": 0, "kind": "live", "id": 10 ** 6 + 7},
                    {"op": "deliver", "id": 10 ** 6 + 7, "via": 0}]
        if sub == "random_pairs":
            g = w.cfg["gseed"]
            evs = []
            for rep in range(3):
                evs += [{"op": "inject", "node": 0, "grid": "rand", "gseed": g + 2 * rep, "gdist": rng.choice(["log", "uniform", "log"])},
                        {"op": "inject", "node": 1, "grid": "rand", "gseed": g + 2 * rep + 1, "gdist": rng.choice(["log", "uniform", "low"])},
                        {"op": "send", "src": 1, "dst": 0, "kind": "live", "id": 10 ** 6 + rep},
                        {"op": "deliver", "id": 10 ** 6 + rep, "via": 0}]
            return evs
        evs = []
        for mid in list(w.msgs)[:4]:
            evs.append({"op": "deliver", "id": mid, "via": 0})
        return evs

    def nontrivial(self, w):
        return w.probes["merges_checked"] > 0


# ==================================================================================
# C10 — save/load reproduces the sketch exactly
# ==================================================================================
def cross_loaders(fam):
    SK = boot.SK
    allc = {"linear": SK.countmin.CountMinLinear.load, "log16": SK.countmin.CountMinLog16.load,
            "log8": SK.countmin.CountMinLog8.load}
    return {k: v for k, v in allc.items() if k != fam} if fam in allc else {}


CLASSNAME = {"linear": "CountMinLinear", "log16": "CountMinLog16", "log8": "CountMinLog8", "hh": "HeavyHitters",
             "hll": "HyperLogLog"}


class ShadowEq(Checker):
    """primary (and every view) byte-equal to the never-restarted in-memory shadow"""

    def eq(self, w, i, why):
        n = w.nodes[i]
        if n.primary is None or n.shadow is None:
            return
        want = state_bytes(n.shadow, w.fam)
        got = state_bytes(n.primary, w.fam)
        if got != want:
            self.fail("state_diverged_from_shadow", f"node={i} after {why}: {self.where(w, n.primary, n.shadow)}")
        if public_params(n.primary, w.fam) != public_params(n.shadow, w.fam):
            self.fail("parameters_differ_from_shadow", f"node={i} after {why}: {public_params(n.primary, w.fam)} vs {public_params(n.shadow, w.fam)}")
        for k, v in enumerate(n.views):
            if state_bytes(v, w.fam) != want:
                self.fail("view_state_differs", f"node={i} view={k+1} after {why}: {self.where(w, v, n.shadow)}")

    def where(self, w, a, b):
        names = {"hh": ["lhh", "lhh_count", "key_lens", "n_added_records"], "hll": ["registers"]}.get(w.fam, ["cms", "n_added_records"])
        out = []
        for nm, x, y in zip(names, tables(a, w.fam), tables(b, w.fam)):
            if x.tobytes() != y.tobytes():
                idx = np.argwhere(x != y)
                first = tuple(int(t) for t in idx[0]) if len(idx) else ()
                out.append(f"{nm}{list(first)}: {x[first] if first else x} vs {y[first] if first else y}")
        return "; ".join(out)[:300]


class C10Checker(ShadowEq):
    prop = "C10"

    def after(self, w, ev, ctx, info):
        if info is None:
            return
        i = info.get("node")
        if i is None:
            return
        n = w.nodes[i]
        op = ev["op"]
        if op == "save":
            self.round_trip(w, n, n.snaps[info["snap"]], i)
        elif op == "crash_restart":
            snap = info["snap"]
            sk = n.primary
            if type(sk).__name__ != snap["params"][0]:
                self.fail("loaded_class_differs", f"{type(sk).__name__} vs {snap['params'][0]} via {info['loader']}")
            if public_params(sk, w.fam) != snap["params"]:
                self.fail("loaded_parameters_differ", f"{public_params(sk, w.fam)} vs {snap['params']}")
            if state_bytes(sk, w.fam) != snap["bytes"]:
                self.fail("loaded_state_differs", f"node={i} restart via {info['loader']} shared={ev.get('shared_load')}")
            w.probes["restarts_checked"] += 1
        self.eq(w, i, op)
        if op in ("add", "update_list", "update_dict", "add_ngram", "update_ngram", "deliver") and n.gen > 0:
            w.probes["events_after_restart_compared"] += 1

    def round_trip(self, w, n, snap, i):
        from .world import api

        fam = w.fam
        orig = n.primary
        for route, ld in loaders(fam).items():
            for shared in (False, True):
                if shared and (w.n_events + i) % 3:
                    continue
                cp = api("load", ld, snap["path"], shared)
                if type(cp).__name__ != CLASSNAME[fam] or type(cp) is not type(orig):
                    self.fail("loaded_class_differs", f"{route} load returned {type(cp).__name__} for a {type(orig).__name__}")
                if public_params(cp, fam) != public_params(orig, fam):
                    self.fail("loaded_parameters_differ", f"{route}: {public_params(cp, fam)} vs {public_params(orig, fam)}")
                if state_bytes(cp, fam) != state_bytes(orig, fam):
                    self.fail("loaded_state_differs", f"{route} shared={shared}: {self.where(w, cp, orig)}")
                if fam in CMS or fam == "hh":
                    ob = w.observer(orig)
                    for u in w.universe:
                        a, b = estimate(cp, fam, u), estimate(ob, fam, u)
                        if a != b:
                            self.fail("loaded_query_differs", f"key {u.hex()}: {a} vs {b}")
                    if int(cp.n_added()) != int(orig.n_added()) or int(cp.n_records()) != int(orig.n_records()):
                        self.fail("loaded_bookkeeping_differs", f"{cp.n_added_records} vs {orig.n_added_records}")
                    if fam == "hh":
                        for k, t in ((10 ** 6, None), (2, 0)):
                            qa, qb = cp.query(k, t), orig.query(k, t)
                            if [int(c) for _, c in qa] != [int(c) for _, c in qb]:
                                self.fail("loaded_query_differs", f"query({k},{t}): {qa} vs {qb}")
                else:
                    if cp.query() != orig.query():
                        self.fail("loaded_query_differs", f"{cp.query()} vs {orig.query()}")
                if shared:
                    # a sketch loaded with shared_memory=True must really live in its block:
                    # a second object attached to it sees the loaded state
                    shm = getattr(cp, "shm", None)
                    if shm is None:
                        self.fail("shared_load_has_no_segment", f"{route} load(shared_memory=True) returned a sketch without shm")
                    peer = make_sketch(w.cfg, shared=False)
                    api("attach", peer.attach_existing_shm, shm.name)
                    if state_bytes(peer, fam) != state_bytes(orig, fam):
                        self.fail("shared_load_not_backed_by_its_segment", f"{route} load(shared_memory=True): an object attached to the loaded sketch's block sees {self.where(w, peer, orig)}")
                    del peer
                    # ... and so does a helper built the way parallel_add's workers and mergers
                    # build theirs: type tag + the loaded sketch's own `args` + the block name
                    from .world import sketch_args

                    st, _ = sketch_args(w.cfg)
                    helper = api("attach", boot.SK.helpers.attach_shared_memory, st, cp.args, shm.name)
                    if type(helper) is not type(orig) or public_params(helper, fam) != public_params(orig, fam):
                        self.fail("loaded_args_rebuild_a_different_sketch", f"{route} load(shared_memory=True): helpers.attach_shared_memory({st!r}, loaded.args, name) "
                                                                            f"gives {public_params(helper, fam)}, the original is {public_params(orig, fam)}")
                    if state_bytes(helper, fam) != state_bytes(orig, fam):
                        self.fail("shared_load_not_backed_by_its_segment", f"{route}: helper attached with loaded.args sees {self.where(w, helper, orig)}")
                    del helper
                    w.probes["shared_loads_checked_through_a_peer"] += 1
                api("merge", cp.merge, orig)  # merges with the original without error
                del cp
        for other, ld in cross_loaders(fam).items():
            try:
                ld(snap["path"])
            except Exception:
                w.probes["foreign_loader_rejected"] += 1
            else:
                self.fail("foreign_class_loader_accepted_file", f"{other} loader accepted a {fam} file")
        w.probes["round_trips_checked"] += 1


class C10(WMode):
    prop = "C10"

    def draw(self, rng):
        fam = rng.choice(["linear", "log16", "log8", "hh", "hll"])
        cfg = draw_config(rng, fam, wmax=16, nodes_max=3, events=(12, 45), run_index=getattr(self, "run_index", None))
        cfg["shadow"] = True
        w = hist_weights(work=50)
        w["save"], w["crash_restart"] = 14, 12
        w["set_records"] = 5
        cfg["weights"] = w
        if fam in ("linear", "hh"):
            cfg["mult"] = {"one": 2, "small": 3, "mid": 2, "zero": 1, "ceil": 1, "half": 1, "huge": 1}
        else:
            cfg["mult"] = {"one": 3, "small": 4, "mid": 2, "zero": 1}
        if fam in LOG and rng.random() < 0.3:
            cfg["max_count"], cfg["num_reserved"] = rng.choice([(1 << 63, 15), ((1 << 63) + 12345, 3), (1 << 62, 100), (12345678901234, 7)])
        if fam == "hh" and rng.random() < 0.3:
            cfg["phi"] = rng.choice([0.1, 0.3, 1e-6, 0.999999, 1 / 3])
        return cfg

    def checker(self, cfg):
        return C10Checker()

    def final_events(self, rng, w, gs):
        """Threshold runs (and a share of the others) end with a save, a restart from it and
        two more workload events on every node, so that no shape leaves without a round trip."""
        if "thr" not in w.cfg and rng.random() >= 0.3:
            return []
        evs = []
        for i in range(len(w.nodes)):
            evs.append({"op": "save", "node": i, "style": rng.randrange(3), "via": 0})
            ev = {"op": "crash_restart", "node": i, "snap": -1, "loader": "class", "shared_load": rng.random() < 0.3}
            if w.fam in CMS and rng.random() < 0.5:
                ev["loader"] = "module"
            evs.append(ev)
            for _ in range(2):
                evs.append(gen_workload(rng, w, w.cfg["mult"], node=i))
        return evs

    def nontrivial(self, w):
        return w.probes["round_trips_checked"] + w.probes["restarts_checked"] > 0


# ==================================================================================
# C12 — batch, dict, multiplicity and ngram entry points equal loops of single adds
# ==================================================================================
class C12Checker(ShadowEq):
    prop = "C12"

    def after(self, w, ev, ctx, info):
        if info is None or "exp" not in info:
            return
        i = info["node"]
        self.eq(w, i, ev["op"])
        n = w.nodes[i]
        if w.fam in CMS:
            ob = w.observer(n.primary)
            for k, _ in info["exp"][:6]:
                a, b = ob[k], ob.query(k)
                if a != b:
                    self.fail("getitem_ne_query", f"key {k.hex()}: sketch[key]={a} query={b}")
        op = ev["op"]
        if ev.get("same_route"):
            w.probes["key_lifted_to_just_below_ceiling"] += 1
            return
        w.probes["entry_" + op] += 1
        if w.cfg.get("prime") and op in ("add", "update_dict"):
            for k, v in info["exp"]:
                t = n.truth[w.ident(k)]
                if t >= U32MAX and t - v < U32MAX and v > 1:
                    w.probes["multiplicity_straddles_ceiling"] += 1
        if op in ("add_ngram", "update_ngram"):
            ks = [ev["key"]] if op == "add_ngram" else ev["keys"]
            for hk in ks:
                L = len(hk) // 2
                w.probes["ngram_len_eq_n" if L == ev["n"] else ("ngram_len_lt_n" if L < ev["n"] else "ngram_len_gt_n")] += 1


class C12(WMode):
    prop = "C12"

    def draw(self, rng):
        fam = rng.choice(["linear", "log16", "log8", "hh", "hll"])
        cfg = draw_config(rng, fam, wmax=8, nodes_max=2, events=(10, 40), run_index=getattr(self, "run_index", None))
        cfg["shadow"] = True
        cfg["shadow_single_adds"] = True
        cfg["land"] = 0  # the shadow pays one call per unit of multiplicity
        cfg["weights"] = {"work": 100}
        cfg["entry_weights"] = {"add": 3, "update_list": 3, "update_dict": 3, "add_ngram": 3, "update_ngram": 2}
        cfg["mult"] = {"one": 2, "small": 4, "mid": 1.5, "zero": 1, "pow2s": 1}
        # longer keys so that n < len, n == len and n > len all occur
        pool = [unhex(h) for h in cfg["pool"]]
        from .gen import rand_key

        for _ in range(3):
            pool.append(rand_key(rng, rng.randrange(2, 41)))
        cfg["pool"] = [hexk(k) for k in pool]
        # round 11 (S107): "add(key, v) equals v single adds" must also hold where the v adds
        # cross the 32-bit ceiling. v single adds of 2^32 are not affordable, so a share of the
        # linear / heavy-hitter runs lift a key to a few counts below the ceiling with one
        # add(key, big) applied to the sketch and to its shadow through the same entry point
        # (no claim is made about that call), and then straddle the ceiling with small v.
        if fam in ("linear", "hh") and rng.random() < 0.3:
            cfg["prime"] = True
        return cfg

    def gen(self, rng, w, gs):
        if w.cfg.get("prime"):
            from .gen import _draw_fields, _via

            primed = getattr(gs, "primed", None)
            if primed is not None and rng.random() < 0.55:
                i, k = primed
                v = rng.randrange(1, 13)
                if rng.random() < 0.5:
                    ev = {"op": "add", "node": i, "via": _via(rng, w, i), "key": k, "v": v}
                else:
                    ev = {"op": "update_dict", "node": i, "via": _via(rng, w, i), "items": [[k, v]]}
                if rng.random() < 0.4:
                    gs.primed = None
                return _draw_fields(rng, w, ev)
            if rng.random() < 0.15:
                i = rng.randrange(len(w.nodes))
                k = rng.choice(w.cfg["pool"])
                gs.primed = (i, k)
                return {"op": "add", "node": i, "via": 0, "key": k, "v": U32MAX - rng.randrange(0, 9), "same_route": True}
        return super().gen(rng, w, gs)

    def checker(self, cfg):
        return C12Checker()


# ==================================================================================
# C15 — merging incompatible sketches is refused and changes nothing
# ==================================================================================
class C15Checker(Checker):
    prop = "C15"

    def after(self, w, ev, ctx, info):
        if info is None:
            return
        if ev["op"] == "skew_merge":
            expect_ok = bool(ev.get("agree"))
            for d, out in zip(ev["dirs"], info["outcomes"]):
                if expect_ok:
                    if out != "merged":
                        self.fail("agreeing_sketches_refused", f"delta={ev['delta']} dir={d}: {out}")
                elif out != "TypeError":
                    inv = "incompatible_merge_accepted" if out == "merged" else "wrong_exception_type"
                    self.fail(inv, f"delta={ev['delta']} dir={d}: outcome {out}")
            if not expect_ok:
                if not info["a_unchanged"] or not info["peer_unchanged"]:
                    self.fail("operand_changed_by_refused_merge", f"delta={ev['delta']} a_unchanged={info['a_unchanged']} peer_unchanged={info['peer_unchanged']}")
                w.probes["refusals_checked:" + "+".join(sorted(ev["delta"]))] += 1
            else:
                w.probes["agreeing_merges_checked"] += 1


def skew_delta(rng, cfg):
    fam = cfg["family"]
    if fam != "hll" and cfg["width"] != cfg["depth"] and rng.random() < 0.12:
        # same number of cells, other shape (a check on derived sizes would let it through)
        return {"width": cfg["depth"], "depth": cfg["width"]}
    if fam != "hll" and cfg["width"] % 2 == 0 and rng.random() < 0.06:
        return {"width": cfg["width"] // 2, "depth": cfg["depth"] * 2}
    if fam in CMS:
        opts = ["width", "depth", "type", "type"]
        if fam in LOG:
            opts += ["max_count", "num_reserved", "max_count", "num_reserved"]
        what = rng.choice(opts)
        if what == "width":
            return {"width": cfg["width"] + rng.choice([1, 2, 7]) if rng.random() < 0.7 or cfg["width"] == 1 else cfg["width"] - 1}
        if what == "depth":
            return {"depth": cfg["depth"] + 1 if rng.random() < 0.6 or cfg["depth"] == 1 else cfg["depth"] - 1}
        if what == "type":
            other = rng.choice([f for f in CMS if f != fam])
            d = {"family": other}
            if other in LOG:
                # keep max_count / num_reserved equal where the peer type accepts them
                if fam in LOG and cfg["num_reserved"] < (255 if other == "log8" else 65535) - 40 and (other == "log8" or cfg["max_count"] >= 70000):
                    d["max_count"], d["num_reserved"] = cfg["max_count"], cfg["num_reserved"]
                else:
                    d["max_count"], d["num_reserved"] = (U32MAX, 15) if other == "log8" else (U32MAX, 1023)
            return d
        if what == "max_count":
            return {"max_count": cfg["max_count"] + rng.choice([1, 1000, cfg["max_count"]])}
        return {"num_reserved": cfg["num_reserved"] + rng.choice([1, 2]) if cfg["num_reserved"] < 200 else cfg["num_reserved"] - 1}
    if fam == "hll":
        if rng.random() < 0.5:
            return {"p": cfg["p"] + 1 if cfg["p"] < 16 else cfg["p"] - 1}
        return {"seed": (cfg["seed"] + rng.choice([1, 1 << 32, 1 << 63])) % (1 << 64)}
    what = rng.choice(["width", "depth", "mkl"])
    if what == "mkl":
        return {"mkl": cfg["mkl"] + 1 if cfg["mkl"] < 255 and (rng.random() < 0.6 or cfg["mkl"] == 1) else cfg["mkl"] - 1}
    return {what: cfg[what] + 1 if rng.random() < 0.6 or cfg[what] == 1 else cfg[what] - 1}


class C15(WMode):
    prop = "C15"

    def draw(self, rng):
        fam = rng.choice(["linear", "log16", "log8", "hh", "hll"])
        cfg = draw_config(rng, fam, wmax=16, nodes_max=3, events=(8, 30), run_index=getattr(self, "run_index", None))
        w = hist_weights(work=40)
        w["skew"] = 35
        cfg["weights"] = w
        cfg["mult"] = {"one": 3, "small": 4, "zero": 1}
        if fam in LOG:
            # peers of the other log type must be constructible with the same parameters
            cfg["max_count"], cfg["num_reserved"] = rng.choice([(U32MAX, 15), (U32MAX, 100), (70000, 15), (10 ** 6, 200), (1 << 40, 15)])
        return cfg

    def checker(self, cfg):
        return C15Checker()

    def gen(self, rng, w, gs):
        from .gen import gen_event

        kind = wchoice(rng, w.cfg["weights"])
        if kind != "skew":
            wts = dict(w.cfg["weights"])
            wts["skew"] = 0
            return gen_event(rng, w, gs, wts, w.cfg["mult"])
        i = rng.randrange(len(w.nodes))
        ev = {"op": "skew_merge", "node": i, "dirs": rng.choice([["ab"], ["ba"], ["ab", "ba"], ["ba", "ab"]]),
              "keys": [rng.choice(w.cfg["pool"]) for _ in range(rng.randrange(1, 4))], "fill": rng.choice(w.cfg["pool"]),
              "ds": rng.getrandbits(31)}
        if rng.random() < 0.2:
            # agreeing peer built differently: other phi (hh), spelled-out defaults, must merge
            ev["agree"] = True
            ev["delta"] = {"phi": rng.choice([0.5, 0.25, 0.01])} if w.fam == "hh" else {"factory": True}
            ev["dirs"] = ["ab"]
        else:
            ev["delta"] = skew_delta(rng, w.cfg)
        return ev

    def nontrivial(self, w):
        return w.counters["skew_merge"] > 0


# ==================================================================================
# C16 — shared-memory and attached sketches behave like in-memory ones
# ==================================================================================
class C16Checker(ShadowEq):
    prop = "C16"

    def after(self, w, ev, ctx, info):
        if info is None:
            return
        i = info.get("node")
        if i is None:
            return
        n = w.nodes[i]
        op = ev["op"]
        if op == "drop_view":
            if info["shm_name"] and not os.path.exists("/dev/shm/" + info["shm_name"]):
                self.fail("segment_gone_after_view_drop", f"node={i} segment {info['shm_name']} no longer listed")
            if info.get("view_own"):
                # the view owned a block of its own: dropping that owner releases it
                if os.path.exists("/dev/shm/" + info["view_own"]):
                    self.fail("view_own_segment_left_after_drop", f"node={i} the dropped view's own segment {info['view_own']} is still listed")
                w.probes["shared_memory_view_drops_checked"] += 1
            w.probes["view_drops_checked"] += 1
        if op == "drop_owner":
            if info["listed_after_owner"] or info["listed_after"]:
                self.fail("segment_left_after_owner_drop", f"node={i} segment {info['shm_name']} still listed (owner_first={info['owner_first']})")
            if info["survivors_ok"] is False:
                self.fail("view_contents_lost_after_owner_drop", f"node={i}")
            w.probes["owner_drops_checked" + ("_owner_first" if info["owner_first"] and info["survivors_ok"] is not None else "")] += 1
            return
        self.eq(w, i, op)
        if n.primary is None:
            return
        # same answers through every party
        parties = [n.primary] + list(n.views)
        if w.fam == "hll":
            q = n.shadow.query()
            for pi, pty in enumerate(parties):
                if pty.query() != q:
                    self.fail("query_differs_from_in_memory", f"node={i} party={pi}: {pty.query()} vs {q}")
        else:
            us = list(w.universe)
            for u in us[: 6]:
                q = estimate(n.shadow, w.fam, u)
                for pi, pty in enumerate(parties):
                    if estimate(pty, w.fam, u) != q:
                        self.fail("query_differs_from_in_memory", f"node={i} party={pi} key {u.hex()}: {estimate(pty, w.fam, u)} vs {q}")
            for pi, pty in enumerate(parties):
                if int(pty.n_added()) != int(n.shadow.n_added()) or int(pty.n_records()) != int(n.shadow.n_records()):
                    self.fail("bookkeeping_differs_from_in_memory", f"node={i} party={pi}")
            if w.fam == "hh" and int(n.shadow.n_added()) < U32MAX:
                # every party is asked after every event, so each one's private candidate
                # cache is warm when another party changes the shared state
                for k, t in ((10 ** 6, None), (3, 1)):
                    want = [(bytes(a), int(b)) for a, b in n.shadow.query(k, t)]
                    for pi, pty in enumerate(parties):
                        got = [(bytes(a), int(b)) for a, b in pty.query(k, t)]
                        if [c for _, c in got] != [c for _, c in want] or {a for a, _ in got if _ > (want[-1][1] if want else 0)} != {a for a, _ in want if _ > (want[-1][1] if want else 0)}:
                            self.fail("query_differs_from_in_memory", f"node={i} party={pi} query({k},{t}) = {got}; in-memory sketch answers {want}")
        if n.views:
            w.probes["events_with_views_compared"] += 1
            if "via" in ev and ev["via"]:
                w.probes["events_routed_through_a_view"] += 1
        shm = getattr(n.primary, "shm", None)
        if shm is not None:
            sz = tables(n.primary, w.fam)[0].nbytes
            if w.fam == "hh":
                if (int(n.primary.lhh.nbytes) % 4) != 0:
                    w.probes["hh_key_area_not_multiple_of_4"] += 1
                sz = n.primary.lhh.nbytes + n.primary.lhh_count.nbytes + n.primary.key_lens.nbytes
            if w.fam != "hll" and sz % 8 != 0:
                w.probes["unaligned_bookkeeping_offset"] += 1

    def final(self, w):
        if w.unraisable:
            w.probes["unraisable_in_del"] += len(w.unraisable)


class C16(WMode):
    prop = "C16"

    def draw(self, rng):
        fam = rng.choice(["linear", "log16", "log8", "hh", "hll"])
        cfg = draw_config(rng, fam, wmax=9, nodes_max=3, events=(12, 45), run_index=getattr(self, "run_index", None), thr_shared=True,
                          thr_dims=("shm_multiple", "cells", "mult", "list_len"), thr_every=6)
        cfg["shared"] = True
        cfg["shadow"] = True
        cfg["weights"] = hist_weights(work=50, views=True)
        cfg["weights"].update({"attach": 10, "drop_view": 6, "drop_owner": 2, "crash_restart": 2, "set_records": 3})
        cfg["mult"] = {"one": 3, "small": 4, "mid": 1, "zero": 1} if fam in LOG or fam == "hll" else {"one": 2, "small": 3, "mid": 1, "zero": 1, "ceil": 1, "huge": 1}
        if fam == "hll":
            cfg["p"] = rng.choice([7, 7, 8, 9, 10])
        return cfg

    def checker(self, cfg):
        return C16Checker()

    def nontrivial(self, w):
        return w.probes["events_with_views_compared"] > 0


# ==================================================================================
# C18 — counters saturate, never wrap
# ==================================================================================
class C18Checker(Checker):
    prop = "C18"

    def before(self, w, ev):
        op = ev["op"]
        if op not in ("add", "update_list", "update_dict", "add_ngram", "update_ngram", "deliver"):
            return None
        if op == "deliver":
            m = w.msgs.get(ev["id"])
            if m is None:
                return None
            i = m.dst
        else:
            i = ev.get("node")
            if i is None or not (0 <= i < len(w.nodes)):
                return None
        n = w.nodes[i]
        if n.primary is None:
            return None
        if op != "deliver":
            for k, _ in w.expansion(ev):
                w.note_key(k)
        ob = w.observer(n.primary)
        return {"node": i, "est": {u: estimate(ob, w.fam, u) for u in w.universe}}

    def after(self, w, ev, ctx, info):
        if info is None:
            return
        if ev["op"] == "ctor":
            if info["raised"] is None:
                mc = float(info["max_count"])
                if not (abs(info["top"] - mc) <= 1e-6 * mc):
                    self.fail("accepted_config_ceiling_ne_max_count", f"{ev['fam']} max_count={info['max_count']} num_reserved={info['nr']}: maximum counter decodes to {info['top']!r} (base={info['base']!r}), no ValueError")
                w.probes["ctor_accepted"] += 1
            else:
                w.probes["ctor_raised_ValueError"] += 1
            return
        if ctx is None:
            return
        i = ctx["node"]
        n = w.nodes[i]
        sk = n.primary
        if w.fam in CMS:
            top = U32MAX if w.fam == "linear" else None
            ob = w.observer(sk)
            for u, old in ctx["est"].items():
                new = estimate(ob, w.fam, u)
                if new < old:
                    self.fail("estimate_decreased", f"node={i} key {u.hex()}: {old} -> {new} after {ev['op']}")
                if w.fam == "linear":
                    if old == U32MAX:
                        w.probes["op_on_saturated_key"] += 1
                else:
                    if old >= float(int(sk.max_count)) * (1 - 1e-6):
                        w.probes["op_on_saturated_key"] += 1
        else:
            if n.unknown:
                return
            totals = None
            for u in w.universe:
                f = n.truth.get(u, 0)
                if f <= 0:
                    continue
                if totals is None:
                    totals, wild = w.cell_totals(n.truth)
                cells = w.owner_cells(u)
                alone = cells is not False and wild == 0 and all(totals[r].get(cells[r], 0) == f for r in range(w.cfg["depth"]))
                if not alone:
                    continue
                c = int(sk[u])
                if c != min(f, U32MAX):
                    self.fail("lone_heavy_hitter_count_wrong", f"node={i} hh[{u.hex()}]={c}, alone in its cells with true count {f}, after {ev['op']}")
                if c < ctx["est"].get(u, 0):
                    self.fail("estimate_decreased", f"node={i} hh[{u.hex()}] {ctx['est'].get(u)} -> {c}")
                if f >= U32MAX:
                    w.probes["op_on_saturated_key"] += 1
                w.probes["lone_hh_key_checked"] += 1


CTOR_MC = [256, 300, 500, 1000, 5000, 70000, 10 ** 6, U32MAX, 1 << 40, 1 << 63]


class C18(WMode):
    prop = "C18"

    def draw(self, rng):
        fam = rng.choice(["linear", "log16", "log8", "log8", "hh"])
        cfg = draw_config(rng, fam, wmax=8, nodes_max=3, events=(12, 45), run_index=getattr(self, "run_index", None))
        w = hist_weights(work=55)
        if fam in LOG:
            w["ctor"] = 8
        else:
            w["ctor"] = 3
        cfg["weights"] = w
        if fam in LOG:
            cfg["max_count"], cfg["num_reserved"] = rng.choice([(300, 0), (300, 15), (500, 3), (1000, 15), (2000, 100)] if fam == "log8"
                                                                else [(70000, 1023), (70000, 60000), (100000, 1023), (70000, 5)])
            cfg["mult"] = {"one": 1, "small": 2, "mid": 4, "zero": 0.5}
            if fam == "log16":
                cfg["mult"] = {"small": 1, "mid": 3, "big": 3}
        else:
            cfg["mult"] = {"one": 1, "small": 1, "ceil": 3, "half": 3, "huge": 2, "zero": 0.5}
        return cfg

    def checker(self, cfg):
        return C18Checker()

    def gen(self, rng, w, gs):
        from .gen import gen_event

        kind = wchoice(rng, w.cfg["weights"])
        if kind != "ctor":
            wts = dict(w.cfg["weights"])
            wts["ctor"] = 0
            return gen_event(rng, w, gs, wts, w.cfg["mult"])
        fam = rng.choice(["log8", "log8", "log16"])
        mx = 255 if fam == "log8" else 65535
        mc = rng.choice(CTOR_MC + [rng.randrange(256, 1 << 20), rng.randrange(1 << 20, 1 << 63)])
        r = rng.random()
        if r < 0.35:
            nr = rng.randrange(0, min(mx, 300))
        elif r < 0.7:
            nr = mx - rng.randrange(1, 60)
        else:
            nr = rng.randrange(0, mx)
        if mc <= nr + 1 and rng.random() < 0.5:
            # half of the time keep max_count at or below num_reserved (the grid of the statement
            # ranges over both independently): such a configuration must raise ValueError
            mc = nr + 2 + rng.randrange(0, 1000)
        if rng.random() < 0.12:
            # the corner of the grid where the log range shrinks to nothing: num_reserved within
            # 3 of the counter maximum, max_count within 3 of num_reserved or of the maximum
            nr = mx - rng.choice([1, 1, 2, 3])
            mc = rng.choice([mx, mx + 1, nr + 1, nr + 2, nr + 3, mx + 2])
            if mc < 300:
                mc = rng.choice([300, 301, 1000])  # the statement's grid starts at max_count 300
        return {"op": "ctor", "fam": fam, "max_count": mc, "nr": nr, "factory": rng.random() < 0.3}

    def nontrivial(self, w):
        return w.probes["op_on_saturated_key"] + w.probes["ctor_accepted"] + w.probes["ctor_raised_ValueError"] > 0


# ==================================================================================
# C06 — log counters: exact in the reserved range, unbiased beyond, fresh draws
# ==================================================================================
WORK_OPS = ("add", "update_list", "update_dict", "add_ngram", "update_ngram")
_decode_checked = {}


class C06Checker(Checker):
    prop = "C06"

    def __init__(self, cfg):
        self.ref = None
        self.cfg = cfg
        self.seen_refills = {}

    def get_ref(self, sk):
        if self.ref is None:
            self.ref = LogRef(float(sk.base), int(sk.num_reserved), int(sk.uint_maxval))
        return self.ref

    # -- decode table: decode(c+1) - decode(c) == base^(c - num_reserved) -------------
    def check_decode(self, w, sk):
        key = (w.fam, int(sk.max_count), int(sk.num_reserved))
        ref = self.get_ref(sk)
        cs = _decode_checked.get(key)
        if cs is None:
            cs = list(range(0, ref.maxval)) if ref.maxval <= 255 else sorted(set(
                list(range(0, 64)) + list(range(max(ref.nr - 32, 0), min(ref.nr + 64, ref.maxval))) +
                list(range(ref.maxval - 64, ref.maxval)) + list(range(0, ref.maxval, 257))))
            _decode_checked[key] = cs
        probe = make_sketch(w.cfg)
        k = b"k"
        prev = None
        for c in cs + [cs[-1] + 1]:
            probe.cms[:] = c
            val = float(probe.query(k))
            if c <= ref.nr and val != float(c):
                self.fail("reserved_range_not_exact", f"counter {c} decodes to {val!r}")
            if prev is not None and prev[0] == c - 1 and prev[0] >= ref.nr:
                step = val - prev[1]
                want = ref.base ** float(prev[0] - ref.nr)
                if abs(step - want) > 1e-9 * max(want, 1.0) + 1e-9 * abs(val):
                    self.fail("decode_step_ne_inverse_probability", f"decode({c})-decode({c-1})={step!r}, base^(c-nr)={want!r}")
            prev = (c, val)
        w.probes["decode_steps_checked"] += len(cs)

    # -- (c) draw accounting: full refinement of every workload event --------------
    def before(self, w, ev):
        if ev["op"] not in WORK_OPS:
            return None
        i = ev.get("node")
        if i is None or not (0 <= i < len(w.nodes)) or w.nodes[i].primary is None:
            return None
        sk = w.party(w.nodes[i], ev.get("via", 0))
        if w.n_events == 1:
            self.check_decode(w, sk)
        return {"tab": sk.cms.copy(), "nadd": int(sk.n_added())}

    def after(self, w, ev, ctx, info):
        if info is None:
            return
        op = ev["op"]
        if op == "law":
            self.law(w, ev, info)
            return
        i = info.get("node")
        if i is None:
            return
        n = w.nodes[i]
        if op in WORK_OPS and ctx is not None:
            self.accounting(w, ev, ctx, info)
        # (b) lower bound on every history
        if n.primary is not None and not n.unknown:
            nr1 = int(n.primary.num_reserved) + 1
            ob = w.observer(n.primary)
            for u in w.universe:
                t = n.truth.get(u, 0)
                q = float(ob.query(u))
                if q < min(t, nr1):
                    self.fail("estimate_below_reserved_lower_bound", f"node={i} key {u.hex()}: query={q} true={t} num_reserved+1={nr1} after {op}")
                if t > nr1:
                    w.probes["key_beyond_reserved_range"] += 1

    def mirror(self, w, ev, ctx, info, ref, actual_refill=None):
        """Reference walk of the whole event. Refilled batches are predicted from the seeded
        generator (numba's stream equals RandomState's); if `actual_refill` is given it is
        used for the (single) refill instead. Returns (table, ptr, used, refills, ambiguous,
        last_batch) or None when the key's counters are not identifiable."""
        from .world import batch_for, map_ptr

        sk = info["sk"]
        B = len(sk.rand_nums)
        ds, ptr = ev.get("ds", 1), map_ptr(sk, ev.get("ptr", 0))
        batch = batch_for(ds, B)
        rs = None
        tab = ctx["tab"].copy()
        ambiguous = False
        refills = 0
        used_total = 0
        for k, v in info["exp"]:
            cells = w.owner_cells(w.ident(k))
            if cells is False:
                return None
            c0 = min(int(tab[r, c]) for r, c in enumerate(cells))
            c, rem = c0, v
            while True:
                c, ptr, used, amb, rem = ref.walk(c, rem, batch, ptr)
                used_total += used
                ambiguous = ambiguous or amb
                if rem == 0:
                    break
                if actual_refill is not None:
                    batch = actual_refill
                else:
                    if rs is None:
                        rs = np.random.RandomState((ds + 1) & 0xFFFFFFFF)
                    batch = rs.random_sample(B)
                ptr = 0
                refills += 1
            if c != c0:
                for r, col in enumerate(cells):
                    if int(tab[r, col]) < c:
                        tab[r, col] = c
        return tab, ptr, used_total, refills, ambiguous, batch

    def exact_walk(self, w, ev, ctx, info, ref):
        """Compares the event with the reference walk. Returns None when the event cannot be
        mirrored (unidentifiable cells, several unpredicted refills, a draw inside the
        ambiguity band), else (ok, text)."""
        from .world import batch_for, map_ptr

        sk = info["sk"]
        B = len(sk.rand_nums)
        m = self.mirror(w, ev, ctx, info, ref)
        if m is None:
            return None
        tab, ptr, used_total, refills, ambiguous, batch = m
        if refills and not np.array_equal(sk.rand_nums, batch):
            # the code's generator is not the stream the simulator predicted: legal. With a
            # single refill the batch actually drawn is observable and the walk is redone
            # with it; with several, intermediate batches are gone.
            w.probes["refill_not_predicted_by_seeded_generator"] += 1
            total_v = sum(v for _, v in info["exp"])
            ptr0 = map_ptr(sk, ev.get("ptr", 0))
            if refills > 1 or total_v > (B - min(ptr0, B)) + B:
                w.probes["unmirrorable_multi_refill_event"] += 1
                return None
            m = self.mirror(w, ev, ctx, info, ref, actual_refill=np.array(sk.rand_nums))
            tab, ptr, used_total, refills, ambiguous, batch = m
        if ambiguous:
            w.probes["draw_inside_ambiguity_band_skipped"] += 1
            return None
        if not np.array_equal(tab, sk.cms):
            idx = np.argwhere(tab != sk.cms)[0]
            return False, ("counter_walk_differs_from_decision_law",
                           f"{ev['op']}: cell{idx.tolist()} model={int(tab[tuple(idx)])} actual={int(sk.cms[tuple(idx)])} "
                           f"(ptr0={ev.get('ptr', 0)}, refills={refills})"), used_total
        if int(sk.rand_ptr) != ptr:
            return False, ("draw_pointer_mismatch",
                           f"{ev['op']}: rand_ptr={int(sk.rand_ptr)} model={ptr} (consumed {used_total} draws, refills={refills})"), used_total
        return True, None, used_total

    def accounting(self, w, ev, ctx, info):
        """(c) What the statement fixes about the draws, per workload event:
        * whatever the code puts into the batch is uniform [0,1) material that is new
          (replenished, never recycled), and the read position never moves backwards over
          draws that were already handed out;
        * a decision beyond the reserved range needs a fresh draw, so the read position (or the
          batch) must have moved when one was due;
        * an event made of UNIT adds only (add(key), update(list), add_ngram, update_ngram,
          update(dict) with counts of 1) follows the decision law draw by draw: it is
          compared with the reference walk, under either convention for the certain step at
          c == num_reserved (a draw spent on it, as the pinned tree does, or none).
        Events with other multiplicities are only held to the first two points here: that
        add(key, v) equals v unit adds under identical draws is C12's statement, and how many
        draws such an add consumes is fixed by neither."""
        from .world import batch_for, map_ptr

        sk = info["sk"]
        ref = self.get_ref(sk)
        B = len(sk.rand_nums)
        first = batch_for(ev.get("ds", 1), B)
        ptr0 = map_ptr(sk, ev.get("ptr", 0))
        cur = sk.rand_nums
        ptr1 = int(sk.rand_ptr)
        changed = not np.array_equal(cur, first)
        if changed:
            w.probes["batch_refilled"] += 1
            if w.free_gen:
                # the harness has not touched the generator since the run began: two refills
                # with the same content mean the stream was rewound, i.e. draws are handed out again
                h = hashlib.sha1(np.ascontiguousarray(cur).tobytes()).hexdigest()
                if h in self.seen_refills:
                    self.fail("refill_repeats_an_earlier_batch", f"{ev['op']} (event {w.n_events}): the replenished batch is identical to the one "
                                                                 f"drawn at event {self.seen_refills[h]}")
                self.seen_refills[h] = w.n_events
                w.probes["refills_with_generator_left_alone"] += 1
            if not ((cur >= 0.0).all() and (cur < 1.0).all()):
                self.fail("draw_outside_unit_interval", ev["op"])
            if float((cur == first).mean()) > 0.01:
                self.fail("batch_recycled", f"{ev['op']}: after the batch was replaced {int((cur == first).sum())} of {B} draws are the old ones")
        if not (0 <= ptr1 <= B):
            self.fail("draw_pointer_out_of_range", f"{ev['op']}: rand_ptr={ptr1}, batch of {B}")
        if not changed and ptr1 < ptr0:
            self.fail("draws_recycled_pointer_moved_back", f"{ev['op']}: rand_ptr {ptr0} -> {ptr1} without a new batch")
        # was a probabilistic decision certainly due? (first unit of the event, counter strictly
        # inside (num_reserved, maximum))
        due = False
        for k, v in info["exp"]:
            if v < 1:
                continue
            cells = w.owner_cells(w.ident(k))
            if cells is not False:
                c0 = min(int(ctx["tab"][r, c]) for r, c in enumerate(cells))
                due = ref.nr < c0 < ref.maxval
            break
        if due:
            w.probes["events_with_a_draw_certainly_due"] += 1
            if not changed and ptr1 == ptr0:
                self.fail("draw_due_but_pointer_not_advanced", f"{ev['op']}: a decision beyond the reserved range was due, rand_ptr stayed {ptr0} and the batch is unchanged: the next decision reuses a draw")
        unit_only = all(v == 1 for _, v in info["exp"])
        verdict = None
        for conv in (True, False):
            ref.draw_at_nr = conv
            r = self.exact_walk(w, ev, ctx, info, ref)
            if r is None:
                verdict = None
                break
            verdict = r
            if r[0]:
                break
        ref.draw_at_nr = True
        if verdict is None:
            return
        ok, why, used_total = verdict
        if ok:
            if used_total:
                w.probes["probabilistic_decisions_mirrored"] += used_total
            return
        if unit_only:
            self.fail(why[0], why[1])
        w.probes["multi_add_event_off_the_unit_walk_tolerated"] += 1

    # -- (a) decision law by placed draws --------------------------------------------
    def law(self, w, ev, info):
        c, c2, u, p = info["c"], info["c2"], info["u"], info["p"]
        nr, mx = info["nr"], info["maxval"]
        if c >= mx:
            if c2 != c or info["ptr2"] not in (info["ptr"], info["ptr"] + 1):
                self.fail("maximum_counter_moved", f"c={c} -> {c2}, ptr {info['ptr']} -> {info['ptr2']}")
            w.probes["law_at_maximum"] += 1
            return
        if c <= nr:
            # certain step (probability 1 at c == num_reserved): exact; whether a draw is
            # spent on it is not part of the law, re-reading an old one would be
            if c2 != c + 1:
                self.fail("reserved_range_not_exact", f"counter {c} <= num_reserved={nr} -> {c2} on a unit add")
            if info["ptr2"] not in (info["ptr"], info["ptr"] + 1):
                self.fail("draw_pointer_mismatch", f"law probe at c={c}: ptr {info['ptr']} -> {info['ptr2']}")
            w.probes["law_in_reserved_range"] += 1
            return
        if info["ptr2"] != info["ptr"] + 1:
            self.fail("draw_pointer_mismatch", f"law probe at c={c}: ptr {info['ptr']} -> {info['ptr2']}")
        if abs(u - p) <= 1e-9 * p:
            return
        want = c + 1 if u < p else c
        if c2 != want:
            self.fail("decision_law_violated", f"counter {c} (num_reserved={nr}) with draw u={u!r} vs p=base^-(c-nr)={p!r} ({ev['side']}): -> {c2}, expected {want}")
        w.probes["law_" + ev["side"]] += 1


class C06(WMode):
    prop = "C06"

    def draw(self, rng):
        fam = rng.choice(["log8", "log8", "log16"])
        cfg = draw_config(rng, fam, wmax=16, nodes_max=3, events=(12, 45), run_index=getattr(self, "run_index", None))
        from .gen import LOG8_GRID, LOG16_GRID

        cfg["max_count"], cfg["num_reserved"] = rng.choice(LOG8_GRID if fam == "log8" else LOG16_GRID)
        cfg["sub"] = "law" if rng.random() < 0.4 else "history"
        if rng.random() < 0.12:
            return self.draw_dist(rng, cfg)
        w = hist_weights(work=60)
        if cfg["sub"] == "law":
            w["law"] = 60
        cfg["weights"] = w
        if cfg["sub"] == "history" and rng.random() < 0.35:
            cfg["free_gen"], cfg["gen_seed"] = True, rng.getrandbits(31)
            maybe_shared(rng, cfg, p=0.6)
        small = cfg["max_count"] <= 10 ** 5
        cfg["mult"] = {"one": 3, "small": 4, "mid": 2, "zero": 1, "big": 1 if small and fam == "log8" else 0}
        return cfg

    DIST_CELLS = [(300, 0, 100), (1000, 15, 400), (300, 0, 220), (500, 3, 50), (500, 3, 400), (1000, 15, 800),
                  (5000, 15, 4000), (2000, 15, 1500)]

    def draw_dist(self, rng, cfg):
        """C06(d): N unit adds of one collision-free key with every draw coming from the
        code's own refill path; the final counter is one sample of the Markov chain."""
        cells = self.DIST_CELLS[:2] if self.tier == "quick" else self.DIST_CELLS
        mc, nr, N = rng.choice(cells)
        cfg.update(family="log8", width=1, depth=1, max_count=mc, num_reserved=nr, n_nodes=1, sub="dist",
                   dist_cell=f"log8/{mc}/{nr}/{N}", pool=["6b"], factory=False)
        cuts = sorted(rng.randrange(0, N + 1) for _ in range(rng.randrange(0, 4)))
        parts = [b - a for a, b in zip([0] + cuts, cuts + [N])]
        cfg["dist_parts"] = [p for p in parts if p > 0]
        cfg["n_events"] = len(cfg["dist_parts"])
        cfg["weights"] = {"work": 1}
        cfg["mult"] = {"one": 1}
        return cfg

    tier = "quick"

    def hist(self, w):
        if w.cfg.get("sub") != "dist":
            return None
        return {w.cfg["dist_cell"]: int(w.nodes[0].primary.cms[0, 0])}

    def checker(self, cfg):
        return C06Checker(cfg)

    def gen(self, rng, w, gs):
        from .gen import gen_event

        if w.cfg.get("sub") == "dist":
            v = w.cfg["dist_parts"][w.n_events]
            # ptr = 2048: the first probabilistic decision already refills from the generator
            return {"op": "add", "node": 0, "via": 0, "key": "6b", "v": v, "ds": rng.getrandbits(31), "ptr": 2048}
        kind = wchoice(rng, w.cfg["weights"])
        if kind != "law":
            wts = dict(w.cfg["weights"])
            wts["law"] = 0
            return gen_event(rng, w, gs, wts, w.cfg["mult"])
        mx = 255 if w.fam == "log8" else 65535
        nr = w.cfg["num_reserved"]
        r = rng.random()
        if r < 0.25:
            c = rng.choice([nr, nr + 1, max(nr - 1, 0), mx, mx - 1, 0, min(nr + 2, mx)])
        elif r < 0.5:
            c = rng.randrange(nr, mx + 1)
        else:
            c = rng.randrange(0, mx + 1)
        return {"op": "law", "node": rng.randrange(len(w.nodes)), "key": rng.choice(w.cfg["pool"]), "c": c,
                "side": rng.choice(["below", "above", "below", "above", "far_below", "far_above", "zero", "max"]),
                "ptr": rng.choice([0, 1, 2047, rng.randrange(2048)]), "ds": rng.getrandbits(31)}  # 2047 = last slot (map_ptr)

    def nontrivial(self, w):
        return w.probes["probabilistic_decisions_mirrored"] > 0 or w.counters["law"] > 0

    def batch_check(self, agg, seed):
        """C06(d): chi-square of the sampled final counters against the exact Markov chain;
        threshold chosen for a false-alarm probability <= 1e-9 per cell."""
        from .models import chi_square_vs_exact, find_base_ref, markov_counter_distribution

        report = {}
        bad = None
        for cell, hist in sorted(agg.hist.items()):
            n = sum(hist.values())
            fam, mc, nr, N = cell.split("/")
            mc, nr, N = int(mc), int(nr), int(N)
            if n < 300:
                report[cell] = {"samples": n, "skipped": "fewer than 300 samples"}
                continue
            sk = make_sketch({"family": "log8", "width": 1, "depth": 1, "max_count": mc, "num_reserved": nr})
            base = float(sk.base)
            exact = markov_counter_distribution(base, nr, 255, N)
            stat, df, p = chi_square_vs_exact({int(k): v for k, v in hist.items()}, exact)
            mean_dec = sum(LogRef(base, nr, 255).decode(int(k)) * v for k, v in hist.items()) / n
            report[cell] = {"samples": n, "chi2": round(stat, 2), "df": df, "p_value": p, "mean_estimate": round(mean_dec, 2), "true_count": N}
            if p < 1e-9 and bad is None:
                bad = (cell, report[cell], hist)
        self._dist_report = report
        return bad

    def extra_evidence(self):
        return {"distribution_cells_vs_exact_markov_chain": getattr(self, "_dist_report", {})}


MODES = {"C01": C01(), "C02": C02(), "C03": HHMode("C03"), "C04": HHMode("C04"), "C05": C05(), "C06": C06(), "C09": C09(),
         "C10": C10(), "C12": C12(), "C13": C13(), "C15": C15(), "C16": C16(), "C18": C18()}
