"""Per-property modes of engine W: configuration draw, event mix and invariants.

Each checker implements exactly what its property's statement says and no more; the
oracles never call into sketchnu except through the observation points the property
names (query/__getitem__/public tables, an empty probe sketch after one add)."""
import os

import numpy as np

from . import boot
from .core import hexk, unhex
from .gen import CMS, LOG, U32MAX, draw_config, gen_workload, wchoice
from .models import LogRef, hll_registers
from .world import (copy_state, estimate, install_draws, loaders, make_sketch, public_params, state_bytes,
                    tables)
from .wrun import Checker, WMode

NET = {"send": 14, "deliver": 14, "dup": 3, "drop": 2, "partition": 1.5, "heal": 1.5}
DISK = {"save": 5, "crash_restart": 4}


def hist_weights(work=60, net=True, disk=True, views=False):
    w = {"work": work}
    if net:
        w.update(NET)
    if disk:
        w.update(DISK)
    if views:
        w.update({"attach": 4, "drop_view": 3, "drop_owner": 1})
    return w


def changed_node(ev, info):
    """index of the node whose sketch may have changed, or None"""
    if info is None:
        return None
    return info.get("node")


# ==================================================================================
# C01 — linear count-min: truth <= estimate <= collision bound on every history
# ==================================================================================
class C01Checker(Checker):
    prop = "C01"

    def after(self, w, ev, ctx, info):
        i = changed_node(ev, info)
        if i is None:
            return
        n = w.nodes[i]
        if n.unknown or n.primary is None:
            return
        sk = n.primary
        truth = n.truth
        for ident in w.universe:
            est = int(sk.query(ident))
            alias = int(sk[ident])
            if alias != est:
                self.fail("getitem_ne_query", f"key={ident.hex()} sketch[key]={alias} query={est}")
            t = truth.get(ident, 0)
            if est < min(t, U32MAX):
                self.fail("lower_bound", f"node={i} key={ident.hex()} est={est} true={t} after {ev['op']}")
            cells = w.owner_cells(ident)
            if cells is False:
                continue
            best = None
            exact_row = False
            for r, row in enumerate(w.sharers(ident)):
                tot = 0
                for other in row:
                    tot += truth.get(other, 0)
                if best is None or tot < best:
                    best = tot
                if len(row) == 1:
                    exact_row = True
            bound = min(best, U32MAX)
            if est > bound:
                self.fail("upper_bound", f"node={i} key={ident.hex()} est={est} classic_cm={bound} true={t}")
            if exact_row:
                w.probes["collision_free_row_exact"] += 1
                if est != min(t, U32MAX):
                    self.fail("collision_free_exact", f"node={i} key={ident.hex()} est={est} true={t}")
            else:
                w.probes["key_collides_in_every_row"] += 1
            if t >= U32MAX:
                w.probes["truth_at_or_past_ceiling"] += 1


class C01(WMode):
    prop = "C01"

    def draw(self, rng):
        cfg = draw_config(rng, "linear", wmax=64, dmax=8, nodes_max=4, events=(15, 60))
        cfg["weights"] = hist_weights()
        cfg["mult"] = rng.choice([
            {"one": 3, "small": 3, "mid": 2, "zero": 1, "ceil": 1, "half": 1, "huge": 1},
            {"one": 1, "small": 1, "ceil": 3, "half": 3, "huge": 2},
            {"one": 4, "small": 4, "zero": 1},
        ])
        return cfg

    def checker(self, cfg):
        return C01Checker()

    def nontrivial(self, w):
        c = w.counters
        return (c["deliver"] + c["crash_restart"] > 0) or w.probes["key_collides_in_every_row"] > 0


# ==================================================================================
# C02 — HyperLogLog is a function of the set of distinct keys
# ==================================================================================
class C02Checker(Checker):
    prop = "C02"

    def __init__(self, cfg):
        self.p = cfg["p"]
        self.seed = cfg["seed"]
        self.cache = {}
        self.fresh = None

    def ref(self, keys):
        return bytes(hll_registers(keys, self.p, self.seed, self.cache))

    def check_node(self, w, i, why, force_query=False):
        n = w.nodes[i]
        if n.primary is None:
            return
        got = n.primary.registers.tobytes()
        want = self.ref(n.truth)
        if got != want:
            bad = [j for j in range(len(want)) if got[j] != want[j]][:4]
            self.fail("registers_ne_reference",
                      f"node={i} after {why}: registers differ from reference at {[(j, got[j], want[j]) for j in bad]}"
                      f" with {len(n.truth)} distinct keys")
        mx = max(want) if want else 0
        if mx >= 64 - self.p + 1:
            w.probes["register_at_maximum_rank"] += 1
        if mx >= 33:
            w.probes["rank_ge_33"] += 1
        if force_query or w.n_events % 3 == 0:
            if self.fresh is None:
                self.fresh = make_sketch(w.cfg, shared=False)
            fr = self.fresh
            fr.registers[:] = 0
            for k in sorted(n.truth):
                fr.add(k)
            a, b = n.primary.query(), fr.query()
            if not (a == b):
                self.fail("query_ne_fresh_sketch", f"node={i} query()={a!r} fresh-sketch query()={b!r}")
            if not n.truth and a != 0.0:
                self.fail("query_ne_fresh_sketch", f"empty sketch query()={a!r}")

    def after(self, w, ev, ctx, info):
        i = changed_node(ev, info)
        if i is None:
            return
        self.check_node(w, i, ev["op"])
        if ev["op"] == "deliver" and not info["other_unchanged"]:
            self.fail("merge_mutated_operand", f"deliver {ev['id']}: the merged-in sketch changed")
        if ev["op"] == "converge_check":
            pass

    def final(self, w):
        """After heal: two different anti-entropy trees over all live nodes must give the
        union, byte-identical (commutative / associative / idempotent)."""
        live = [n for n in w.nodes if n.primary is not None]
        if not live:
            return
        union = set()
        for n in live:
            union |= n.truth
        want = self.ref(union)
        order = w.cfg.get("final_orders") or [list(range(len(live))), list(reversed(range(len(live))))]
        results = []
        for perm in order:
            clones = []
            for j in perm:
                if j >= len(live):
                    continue
                c = make_sketch(w.cfg, shared=False)
                c.registers[:] = live[j].primary.registers
                clones.append(c)
            # pairwise tree in the given order, with one duplicated delivery
            while len(clones) > 1:
                nxt = []
                for a in range(0, len(clones) - 1, 2):
                    clones[a].merge(clones[a + 1])
                    clones[a].merge(clones[a + 1])  # idempotence
                    nxt.append(clones[a])
                if len(clones) % 2:
                    nxt.append(clones[-1])
                clones = nxt
            results.append(clones[0].registers.tobytes())
        for r in results:
            if r != want:
                self.fail("converged_ne_union", f"anti-entropy result differs from reference of the union "
                                                f"({len(union)} keys)")
        if len(set(results)) != 1:
            self.fail("merge_order_dependent", "two merge trees over the same replicas gave different registers")
        w.probes["final_convergence_checked"] += 1


class C02(WMode):
    prop = "C02"

    def draw(self, rng):
        cfg = draw_config(rng, "hll", nodes_max=5, events=(15, 60))
        cfg["weights"] = hist_weights(work=55)
        cfg["mult"] = {"one": 2, "small": 2, "mid": 1, "zero": 1, "huge": 1}
        n = cfg["n_nodes"]
        perm = list(range(n))
        rng.shuffle(perm)
        perm2 = list(range(n))
        rng.shuffle(perm2)
        cfg["final_orders"] = [perm, perm2, list(range(n))]
        return cfg

    def checker(self, cfg):
        return C02Checker(cfg)

    def final_events(self, rng, w, gs):
        # faults stop: heal, then every in-flight message is delivered
        evs = []
        if gs.groups is not None:
            gs.groups = None
            evs.append({"op": "heal"})
        for mid in list(w.msgs):
            evs.append({"op": "deliver", "id": mid, "via": 0})
        return evs

    def nontrivial(self, w):
        c = w.counters
        return c["deliver"] + c["crash_restart"] + c["dup"] > 0


MODES = {"C01": C01(), "C02": C02()}
