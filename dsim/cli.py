"""Entry point: ./check <ID> [--tier quick|thorough] [--replay FILE] [--runs N] [--workers N]

Exit codes: 0 held on everything explored (known findings are printed as KNOWN-FINDING),
1 VIOLATION (with replay file), 2 harness error (never a verdict about the property)."""
import argparse
import json
import os
import subprocess
import sys
import time

from . import boot
from .core import (Agg, HarnessError, REPLAY_DIR, VERIF_DIR, Violation, load_known_findings, run_pool, run_rng,
                   write_evidence, write_replay)

W_PROPS = ("C01", "C02", "C03", "C04", "C05", "C06", "C09", "C10", "C12", "C13", "C15", "C16", "C18")
P_PROPS = ("C08", "C19")
D_PROPS = ("C20",)
NA_PROPS = ("C07", "C11", "C14", "C17")

REAL_W = [
    "sketchnu.countmin / heavyhitters / hyperloglog / hashes (unmodified working tree, numba-compiled)",
    "numpy.savez / numpy.load / zipfile on real files (tmpfs scratch)",
    "multiprocessing.shared_memory.SharedMemory (real POSIX segments in /dev/shm)",
    "helpers.attach_shared_memory",
]
STUB_W = [
    "time.sleep in countmin/heavyhitters/hyperloglog/helpers -> virtual clock (module-level name seam)",
    "OS entropy of the log-counter batches -> batch written from the run PRNG through rand_nums/rand_ptr",
    "numba per-thread MT19937 -> seeded before every event through a harness-side njit np.random.seed",
    "numba native threads pinned to 1 (NUMBA_NUM_THREADS=1, workqueue layer)",
    "network between replicas -> in-process message set (drop/dup/reorder/delay/partition are PRNG choices)",
    "numba on-disk cache switched on (cache dir keyed by sha256 of all sketchnu sources)",
]


def tier_budget(prop, tier):
    from .budgets import BUDGETS

    b = BUDGETS.get(prop, {})
    return b.get(tier, {"runs": 2000, "wall": 60} if tier == "quick" else {"runs": 200000, "wall": 900})


def get_mode(prop):
    from .wprops import MODES

    return MODES[prop]


def _w_task_factory(prop, seed):
    mode = get_mode(prop)
    from .wrun import run_one

    def task(i):
        rng = run_rng(prop, "W", seed, i)
        return run_one(mode, rng, i, want_sample=(i < 3))

    return task


def classify_known(prop, viol_payload):
    """A violation whose minimised trace matches a listed known finding is reported as
    KNOWN-FINDING and does not fail the check. `fixed` entries suppress nothing."""
    from .known import PREDICATES

    for f in load_known_findings():
        if f.get("status") != "known" or f.get("property") != prop:
            continue
        pred = PREDICATES.get(f.get("signature"))
        if pred is not None and pred(viol_payload):
            return f
    return None


def recheck_sample(task, agg, frac=0.02, cap=60):
    ids = sorted(int(k) for k in agg.run_digests if k != "None")
    if not ids:
        return 0
    n = max(3, min(cap, int(len(ids) * frac)))
    step = max(1, len(ids) // n)
    sample = ids[::step][:n]
    for i in sample:
        r = task(i)
        if str(r.get("digest", "")) != agg.run_digests[str(i)]:
            print(f"HARNESS-ERROR nondeterminism: run {i} gave digest {r.get('digest')} in the parent but "
                  f"{agg.run_digests[str(i)]} in the pool", file=sys.stderr)
            return -1
    return len(sample)


def _minimise_job(prop, seed, r, hermetic):
    from .wrun import execute, execute_hermetic, minimise

    mode = get_mode(prop)
    v = r["violation"]
    cfg, events = v["config"], v["events"]
    t0 = time.time()
    mcfg, mevents, ok = minimise(mode, cfg, events, v["prop"], v["inv"], hermetic=hermetic)
    if not ok:
        return None
    vv, idx = (execute_hermetic if hermetic else execute)(mode, mcfg, mevents)
    if vv is None:
        return None
    payload = {
        "property": prop,
        "engine": "W",
        "seed": seed,
        "run_index": r["i"],
        "invariant": vv.inv,
        "detail": str(vv.detail),
        "config": mcfg,
        "events": mevents,
        "original_event_count": len(events),
        "minimise_s": round(time.time() - t0, 2),
        "tree_hash": boot.TREE_HASH,
    }
    if hermetic:
        payload["note"] = ("minimised with every candidate in its own forked interpreter: in-process shrinking was steered by "
                           "state the tree keeps across sketch objects / executions")
    return payload


def handle_violation_w(prop, seed, r, args, hermetic=False):
    """Shrinks the failing run. The fast variant runs all candidates in ONE forked child
    (the check's main process never executes a world before violations are handled, so
    that it stays a clean base to fork from); the hermetic variant forks per candidate."""
    from .wrun import in_child

    if hermetic:
        return _minimise_job(prop, seed, r, True)
    return in_child(_minimise_job, prop, seed, r, False, timeout=850)


def original_payload(prop, seed, r, note):
    """The failing run exactly as the worker executed it (no shrinking)."""
    v = r["violation"]
    return {"property": prop, "engine": "W", "seed": seed, "run_index": r["i"], "invariant": v["inv"], "detail": str(v["detail"]),
            "config": v["config"], "events": v["events"], "original_event_count": len(v["events"]), "minimise_s": 0.0,
            "tree_hash": boot.TREE_HASH, "note": note}


def verify_replay_fresh(prop, path, inv):
    """Replay the minimised file in a fresh interpreter; it must fail the same way."""
    env = dict(os.environ)
    p = subprocess.run([sys.executable, os.path.join(VERIF_DIR, "dsim_main.py"), prop, "--replay", path, "--quiet"],
                       capture_output=True, text=True, env=env, timeout=600)
    return p.returncode == 1 and f"invariant={inv}" in p.stdout, p.stdout + p.stderr


def do_replay(prop, path, quiet=False):
    with open(path) as f:
        payload = json.load(f)
    from .core import Watchdog

    Watchdog(1800, f"replay of {path}").__enter__()
    eng = payload.get("engine", "W")
    if eng == "S":
        # statistical batch finding: the replay is the batch itself (seed, tier, run count)
        os.environ["VERIF_SEED"] = str(payload["seed"])

        class A:
            runs, wall, workers, digests, quiet = payload["runs"], None, None, None, True

        rc = run_w(prop, payload.get("tier", "quick"), payload["seed"], A)
        return rc
    if eng == "W":
        from .wrun import execute

        mode = get_mode(prop)
        v, idx = execute(mode, payload["config"], payload["events"])
    elif eng in ("P", "A"):
        from .pprops import replay as preplay

        v = preplay(prop, payload)
    elif eng == "D":
        from .disk import replay as dreplay

        v = dreplay(prop, payload)
    else:
        raise HarnessError(f"unknown engine {eng}")
    if v is None:
        print(f"REPLAY-HELD property={prop} replay={path}")
        return 0
    print(f"VIOLATION property={prop} replay={path} invariant={v.inv}")
    if not quiet:
        print(f"  detail: {v.detail}")
    return 1


def run_w(prop, tier, seed, args):
    mode = get_mode(prop)
    mode.tier = tier
    budget = tier_budget(prop, tier)
    n_runs = args.runs or budget["runs"]
    wall = args.wall or budget["wall"]
    workers = args.workers or min(16, os.cpu_count() or 1)
    from multiprocessing import resource_tracker

    resource_tracker.ensure_running()
    agg = Agg()
    t0 = time.time()

    def on_result(r):
        agg.add(r)
        if "violation" in r:
            agg.violations.append(r)
            return True
        return False

    task = _w_task_factory(prop, seed)
    consumed, reason = run_pool(task, n_runs, workers, wall, chunk=max(4, min(64, n_runs // (workers * 8) or 1)),
                                on_result=on_result, stop_on_violation=True)
    if agg.harness_errors:
        print("HARNESS-ERROR", agg.harness_errors[0]["harness_error"], file=sys.stderr)
        return 2
    rc = 0
    reported = []
    unreproduced = []
    seen_classes = set()
    for r in agg.violations:
        cls = (r["violation"]["prop"], r["violation"]["inv"])
        if cls in seen_classes:
            continue
        seen_classes.add(cls)
        from .core import Watchdog

        note = ("not minimised: no shrunk candidate failed in a fresh interpreter, i.e. shrinking was steered by interpreter "
                "state left behind by earlier executions (state shared between sketch objects)")
        attempts = [lambda: handle_violation_w(prop, seed, r, args), lambda: handle_violation_w(prop, seed, r, args, hermetic=True),
                    lambda: original_payload(prop, seed, r, note)]
        ok, path, out, payload, is_known = False, None, "", None, False
        for attempt in attempts:
            with Watchdog(900, f"minimisation of {prop} run {r['i']}"):
                payload = attempt()
            if payload is None:
                continue
            known = classify_known(prop, payload)
            if known is not None:
                line = f"KNOWN-FINDING: property={prop} {known['what']}"
                if line not in reported:
                    print(line)
                    reported.append(line)
                agg.known.append(known["id"])
                is_known = True
                break
            path = write_replay(prop, seed, r["i"], payload)
            ok, out = verify_replay_fresh(prop, path, payload["invariant"])
            if ok:
                break
        if is_known:
            continue
        if not ok:
            unreproduced.append(f"replay {path} of run {r['i']} ({cls[1]}) did not reproduce in a fresh interpreter:\n{out}")
            continue
        print(f"VIOLATION property={prop} replay={path}")
        print(f"  invariant={payload['invariant']} run={r['i']} seed={seed} events={len(payload['events'])} "
              f"(from {payload['original_event_count']})")
        print(f"  detail: {payload['detail']}")
        rc = 1
    if unreproduced:
        # a failure that only exists in the pooled worker's interpreter (it depends on what
        # earlier runs left behind there). With a reproducible violation already reported it
        # is a footnote; on its own it means the check itself cannot be trusted: exit 2.
        for u in unreproduced:
            print(("NOTE " if rc == 1 else "HARNESS-ERROR ") + u, file=sys.stderr)
        if rc == 0:
            return 2
    if rc == 0 and hasattr(mode, "batch_check"):
        bad = mode.batch_check(agg, seed)
        if bad is not None:
            cell, rep, hist = bad
            payload = {"property": prop, "engine": "S", "seed": seed, "run_index": -1, "invariant": "counter_distribution_ne_markov_chain",
                       "detail": f"cell {cell}: {rep}", "cell": cell, "histogram": hist, "runs": consumed, "tier": tier,
                       "tree_hash": boot.TREE_HASH}
            path = write_replay(prop, seed, "dist", payload)
            print(f"VIOLATION property={prop} replay={path}")
            print(f"  invariant=counter_distribution_ne_markov_chain {cell}: {rep}")
            agg.violations.append({"i": -1})
            rc = 1
    agg.dump_digests(args.digests)
    if rc == 0:
        from .core import reach_self_check

        missing = reach_self_check(prop, agg, agg.runs, tier_budget(prop, tier)["runs"])
        if missing:
            print(f"HARNESS-ERROR reach probes stuck at zero for {prop}: {missing}", file=sys.stderr)
            return 2
    # determinism self-check: a sample of this batch's runs is re-executed in the parent
    # process (no pool) and must reproduce the pooled digests bit for bit
    if rc == 0 and not agg.violations:
        nre = recheck_sample(task, agg)
        if nre < 0:
            return 2
    else:
        nre = 0
    wall_s = time.time() - t0
    rule = mode.rule if hasattr(mode, "rule") else (
        "one case = one seeded simulated run (configuration drawn per run, then a PRNG-chosen event sequence over "
        "replicas/network/disk/views); distinct = distinct sha1 of (config, event log); non-trivial = the run "
        "contained at least one fault/merge/restart event or hit the property's collision/ceiling/cache probe")
    extra = {"stop_reason": reason or "completed", "runs_requested": n_runs, "workers": workers,
             "tree_hash": boot.TREE_HASH, "runs_reexecuted_for_determinism": nre}
    if hasattr(mode, "extra_evidence"):
        extra.update(mode.extra_evidence())
    write_evidence(prop, tier, seed, "exploration", agg, wall_s, rule, REAL_W, STUB_W, ASSUME_W, extra=extra)
    return rc


ASSUME_W = [
    "sampling, not proof: a clean batch is evidence for the explored seeds only",
    "numba native threads are pinned to one; the prange merge kernels write disjoint rows",
    "reference models (FastHash64, rank, log-counter walk) are written from the published algorithms / the "
    "property statement and are trusted",
]


_OWN_BASE = None


def claim_scratch_base():
    """One scratch directory per check invocation; every forked worker and every replay
    subprocess puts its files below it (DSIM_SCRATCH_BASE), and the invocation removes it when
    it ends - pool workers are terminated without running their atexit handlers."""
    global _OWN_BASE
    if os.environ.get("DSIM_SCRATCH_BASE") and os.path.isdir(os.environ["DSIM_SCRATCH_BASE"]):
        return
    import tempfile

    d = "/dev/shm" if os.access("/dev/shm", os.W_OK) else None
    _OWN_BASE = tempfile.mkdtemp(prefix="dsimw-", dir=d)
    os.environ["DSIM_SCRATCH_BASE"] = _OWN_BASE


def cleanup_scratch():
    global _OWN_BASE
    if _OWN_BASE:
        import shutil

        shutil.rmtree(_OWN_BASE, ignore_errors=True)
        _OWN_BASE = None


def main(argv=None):
    ap = argparse.ArgumentParser()
    ap.add_argument("prop")
    ap.add_argument("--tier", default=os.environ.get("VERIF_TIER", "quick"))
    ap.add_argument("--replay")
    ap.add_argument("--runs", type=int)
    ap.add_argument("--wall", type=float)
    ap.add_argument("--workers", type=int)
    ap.add_argument("--quiet", action="store_true")
    ap.add_argument("--digests", help="write per-run digests to this file (determinism self-test)")
    args = ap.parse_args(argv)
    prop = args.prop
    if boot.pin_env():
        os.execve(sys.executable, [sys.executable] + sys.argv, os.environ)
    claim_scratch_base()
    seed = int(os.environ.get("VERIF_SEED", "0") or 0)
    tier = args.tier if args.tier in ("quick", "thorough") else "quick"
    if prop in NA_PROPS:
        print(f"NOT-APPLICABLE property={prop} (pure function of its input; see DESIGN.md section 5)")
        return 0
    try:
        boot.boot()
        if not args.quiet:
            print(f"VERIF_SEED={seed} property={prop} tier={tier} tree={boot.TREE_HASH} import_s={boot.SK.import_s:.1f}")
        if args.replay:
            return do_replay(prop, args.replay, args.quiet)
        if prop in W_PROPS:
            return run_w(prop, tier, seed, args)
        if prop in P_PROPS:
            from .pprops import run_check as prun

            return prun(prop, tier, seed, args)
        if prop in D_PROPS:
            from .disk import run_check as drun

            return drun(prop, tier, seed, args)
        print(f"HARNESS-ERROR unknown property {prop}", file=sys.stderr)
        return 2
    except HarnessError as e:
        print(f"HARNESS-ERROR {e}", file=sys.stderr)
        return 2
    except Violation as v:  # should not escape
        print(f"HARNESS-ERROR stray violation {v}", file=sys.stderr)
        return 2
