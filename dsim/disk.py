"""Engine D — crash points of save(): every strict prefix of the bytes save() produced is
written back to disk and offered to every applicable loader; the loader must raise.
The space (all offsets of every file in the catalogue) is enumerated completely."""
import hashlib
import io
import os
import sys
import tempfile
import time

import numpy as np

from . import boot
from .core import Agg, HarnessError, Violation, run_pool, run_rng, write_evidence, write_replay
from .gen import base_pool, hexk, unhex
from .world import install_draws, loaders, make_sketch, public_params, scratch_dir, state_bytes

FAMS = ("linear", "log16", "log8", "hh", "hll")


def catalogue(tier, seed):
    """Deterministic list of (family, cfg, adds). Shapes incl. width/depth 1 and keys that
    contain zip signatures."""
    rng = run_rng("C20", "D-catalogue", seed, 0)
    cases = []
    sig_keys = [b"PK\x05\x06", b"PK\x01\x02ab", b"PK\x03\x04", b"\x00" * 4, b"", b"abc"]
    shapes = {
        "linear": [(1, 1), (3, 2), (16, 4)] + ([(64, 8), (500, 8)] if tier == "thorough" else []),
        "log16": [(1, 1), (5, 3), (16, 4)] + ([(100, 8), (1000, 8)] if tier == "thorough" else []),
        "log8": [(1, 1), (7, 3), (16, 8)] + ([(300, 8), (2500, 8)] if tier == "thorough" else []),
        "hh": [(1, 1, 4), (3, 2, 5), (8, 4, 16)] + ([(40, 4, 16), (64, 4, 64)] if tier == "thorough" else []),
        "hll": [(7,), (8,), (9,)] + ([(10,), (12,), (14,)] if tier == "thorough" else []),
    }
    for fam in FAMS:
        for sh in shapes[fam]:
            for content in range(2 if tier == "quick" else 3):
                cfg = {"family": fam}
                if fam == "hll":
                    cfg.update(p=sh[0], seed=rng.choice([0, 1, (1 << 64) - 1, rng.getrandbits(64)]))
                elif fam == "hh":
                    cfg.update(width=sh[0], depth=sh[1], mkl=sh[2], phi=rng.choice([None, 0.3]))
                else:
                    cfg.update(width=sh[0], depth=sh[1])
                    if fam == "log16":
                        cfg.update(max_count=rng.choice([70000, (1 << 32) - 1]), num_reserved=rng.choice([5, 1023]))
                    if fam == "log8":
                        cfg.update(max_count=rng.choice([300, (1 << 32) - 1]), num_reserved=rng.choice([0, 15]))
                pool = base_pool(rng, cfg.get("mkl")) + sig_keys
                adds = []
                if content > 0:
                    for _ in range(rng.randrange(1, 30)):
                        adds.append([hexk(rng.choice(pool)), rng.choice([1, 1, 2, 5, 1000])])
                case = {"family": fam, "cfg": cfg, "adds": adds}
                if content > 0 and rng.random() < 0.4:
                    # the file is written twice under the same name (an earlier, smaller state
                    # first): what is on disk afterwards is the file whose prefixes are enumerated
                    case["resave_after"] = rng.randrange(0, len(adds))
                cases.append(case)
    # round 11 (S105): files above 1 MiB (paths that only exist for large tables: direct reads,
    # chunked copies, memory maps). Their crash points are sampled, not enumerated: both ends of
    # the file byte by byte, every member boundary, powers of two and a seeded random sample.
    big = [("linear", (40000, 8)), ("log16", (70000, 8)), ("hh", (4000, 4, 64))]
    if tier == "thorough":
        big += [("log8", (140000, 8)), ("linear", (300000, 1)), ("hll", (16,))]
    for fam, sh in big:
        cfg = {"family": fam}
        if fam == "hll":
            cfg.update(p=sh[0], seed=0)
        elif fam == "hh":
            cfg.update(width=sh[0], depth=sh[1], mkl=sh[2], phi=None)
        else:
            cfg.update(width=sh[0], depth=sh[1])
            if fam == "log16":
                cfg.update(max_count=(1 << 32) - 1, num_reserved=1023)
            if fam == "log8":
                cfg.update(max_count=(1 << 32) - 1, num_reserved=15)
        pool = base_pool(rng, cfg.get("mkl")) + sig_keys
        adds = [[hexk(rng.choice(pool)), rng.choice([1, 2, 5, 1000])] for _ in range(rng.randrange(5, 30))]
        cases.append({"family": fam, "cfg": cfg, "adds": adds, "sampled": True})
    return cases


def sampled_offsets(case, data, seed):
    """crash points tried for a large file (deterministic)"""
    n = len(data)
    rng = run_rng("C20", "D-offsets", seed, n)
    offs = set(range(0, min(n, 160))) | set(range(max(0, n - 400), n))
    for sig in (b"PK\x03\x04", b"PK\x01\x02", b"PK\x05\x06"):
        at = data.find(sig)
        while at != -1:
            offs.update(o for o in range(at - 2, at + 90) if 0 <= o < n)
            at = data.find(sig, at + 1)
    for k in range(8, 24):
        offs.update(o for o in ((1 << k) - 1, 1 << k, (1 << k) + 1, 3 << (k - 1)) if o < n)
    for _ in range(300):
        offs.add(rng.randrange(n))
    return sorted(offs)


def build_bytes(case):
    boot.CLOCK.reset()
    cfg = case["cfg"]
    sk = make_sketch(cfg)
    fam = cfg["family"]
    if fam in ("log16", "log8"):
        install_draws(sk, 4242, 0)
        boot.numba_seed(4243)
    d = tempfile.mkdtemp(prefix="d-", dir=scratch_dir())
    path = os.path.join(d, "f.npz")
    for j, (hk, v) in enumerate(case["adds"]):
        if case.get("resave_after") == j:
            sk.save(path)
        sk.add(unhex(hk), v)
    sk.save(path)
    with open(path, "rb") as f:
        data = f.read()
    import shutil

    shutil.rmtree(d, ignore_errors=True)
    return data, state_bytes(sk, fam), public_params(sk, fam)


def write_log(case):
    """The write/seek calls save() issues, replayed to materialise the crash state after
    each call (not all of these are prefixes: zipfile patches local headers in place)."""
    cfg = case["cfg"]
    sk = make_sketch(cfg)
    if cfg["family"] in ("log16", "log8"):
        install_draws(sk, 4242, 0)
        boot.numba_seed(4243)
    for hk, v in case["adds"]:
        sk.add(unhex(hk), v)

    class Rec(io.BytesIO):
        def __init__(self):
            super().__init__()
            self.states = []

        def write(self, b):
            n = super().write(b)
            self.states.append(self.getvalue())
            return n

    r = Rec()
    # save() is handed a file object; should a tree under test treat its argument as a path
    # (str(obj) + ".npz"), the stray file lands in the scratch directory, not in /verif
    cwd = os.getcwd()
    os.chdir(scratch_dir())
    try:
        sk.save(r)
    except Exception:
        return []
    finally:
        os.chdir(cwd)
    return r.states


_CASES = None
_FILES = None


def try_load(fam, route, path, shared):
    """returns None if the loader raised, else a description of what it returned"""
    try:
        obj = loaders(fam)[route](path, shared)
    except Exception:
        return None
    return f"{type(obj).__name__}{public_params(obj, fam)}"


def _task(idx):
    """one task = one (case, block of offsets)"""
    ci, lo, hi, offs = _TASKS[idx]
    case = _CASES[ci]
    data, want_state, want_params = _FILES[ci]
    fam = case["family"]
    d = tempfile.mkdtemp(prefix="dt-", dir=scratch_dir())
    path = os.path.join(d, "t.npz")
    attempts = 0
    viol = None
    shared_attempts = 0
    for off in (range(lo, hi) if offs is None else offs):
        with open(path, "wb") as f:
            f.write(data[:off])
        for route in loaders(fam):
            sh_opts = (False, True) if (off % 7 == 3 or offs is not None) else (False,)
            for shared in sh_opts:
                attempts += 1
                shared_attempts += 1 if shared else 0
                got = try_load(fam, route, path, shared)
                if got is not None and viol is None:
                    viol = {"prop": "C20", "inv": "truncated_file_loaded", "case": ci, "offset": off, "route": route,
                            "shared": shared, "detail": f"{fam} file of {len(data)} bytes truncated to {off} bytes: "
                                                        f"{route} loader (shared_memory={shared}) returned {got}"}
    os.unlink(path)
    os.rmdir(d)
    res = {"i": idx, "events": attempts, "counters": {f"prefix_load_attempts:{fam}": attempts, "shared_memory_load_attempts": shared_attempts},
           "sig": f"t{ci}:{lo}", "nontrivial": False, "digest": f"{ci}:{lo}:{hi}:{viol is None}",
           "extra_nontrivial": [f"{ci}:{o}" for o in (range(max(lo, 1), hi) if offs is None else offs) if o > 0]}
    if offs is not None:
        res["counters"]["sampled_crash_points_of_files_over_1MiB"] = len(offs)
    if lo == 0:
        # the complete file must load to the saved sketch through every route
        with open(path if False else os.path.join(scratch_dir(), f"full-{os.getpid()}-{ci}.npz"), "wb") as f:
            f.write(data)
        full = f.name
        for route in loaders(fam):
            for shared in (False, True):
                try:
                    obj = loaders(fam)[route](full, shared)
                except Exception as e:
                    viol = viol or {"prop": "C20", "inv": "complete_file_rejected", "case": ci, "offset": len(data), "route": route,
                                    "shared": shared, "detail": f"{fam}: complete file raised {type(e).__name__}: {e}"}
                    continue
                if state_bytes(obj, fam) != want_state or public_params(obj, fam) != want_params:
                    viol = viol or {"prop": "C20", "inv": "complete_file_loads_to_other_sketch", "case": ci, "offset": len(data),
                                    "route": route, "shared": shared, "detail": f"{fam}: loaded sketch differs from the saved one"}
                del obj
        os.unlink(full)
        res["counters"]["complete_file_loads"] = 2 * len(loaders(fam))
        res["sample"] = {"family": fam, "cfg": case["cfg"], "n_adds": len(case["adds"]), "file_bytes": len(data),
                         "offsets": f"0..{len(data)-1} (all)" if not case.get("sampled") else "sampled (both ends, member boundaries, powers of two, seeded random)",
                         "loaders": sorted(loaders(fam))}
    if viol is not None:
        res["violation"] = viol
    return res


_TASKS = None


def replay(prop, payload):
    case = payload["case"]
    data, _, _ = build_bytes(case)
    fam = case["family"]
    d = tempfile.mkdtemp(prefix="dr-", dir=scratch_dir())
    path = os.path.join(d, "t.npz")
    off = payload["offset"]
    with open(path, "wb") as f:
        f.write(data[:off])
    try:
        if payload["invariant"] == "truncated_file_loaded":
            got = try_load(fam, payload["route"], path, payload["shared"])
            if got is not None:
                return Violation("C20", "truncated_file_loaded", f"{fam} file truncated to {off}/{len(data)} bytes: {payload['route']} loader returned {got}")
            return None
        try:
            obj = loaders(fam)[payload["route"]](path, payload["shared"])
        except Exception as e:
            return Violation("C20", "complete_file_rejected", f"{type(e).__name__}: {e}")
        return None
    finally:
        os.unlink(path)
        os.rmdir(d)


def run_check(prop, tier, seed, args):
    global _CASES, _FILES, _TASKS
    t0 = time.time()
    _CASES = catalogue(tier, seed)
    _FILES = [build_bytes(c) for c in _CASES]
    # determinism of the saved bytes (zip timestamps come from the virtual clock)
    again = build_bytes(_CASES[0])[0]
    if again != _FILES[0][0]:
        raise HarnessError("save() bytes are not reproducible")
    block = 64
    _TASKS = []
    n_sampled = 0
    for ci, (data, _, _) in enumerate(_FILES):
        if _CASES[ci].get("sampled") and len(data) <= (1 << 16):
            # a tree that compresses its files: small enough to enumerate like the others
            _CASES[ci] = dict(_CASES[ci], sampled=False)
        if _CASES[ci].get("sampled"):
            offs = sampled_offsets(_CASES[ci], data, seed)
            n_sampled += len(offs)
            for j in range(0, len(offs), 24):
                _TASKS.append((ci, offs[j], offs[j] + 1, offs[j:j + 24]))
            continue
        for lo in range(0, len(data), block):
            _TASKS.append((ci, lo, min(lo + block, len(data)), None))
    notes = 0
    note_states = 0
    for ci in range(0, len(_CASES), max(1, len(_CASES) // 10)):
        states = write_log(_CASES[ci])
        fam = _CASES[ci]["family"]
        d = tempfile.mkdtemp(prefix="dn-", dir=scratch_dir())
        path = os.path.join(d, "t.npz")
        for st in states[:-1]:
            if st == _FILES[ci][0]:
                continue
            note_states += 1
            with open(path, "wb") as f:
                f.write(st)
            if try_load(fam, "class", path, False) is not None:
                notes += 1
        if os.path.exists(path):
            os.unlink(path)
        os.rmdir(d)
    if notes:
        print(f"NOTE {notes} of {note_states} intermediate write-log states (not prefixes, outside C20's statement) load successfully")
    agg = Agg()

    def on_result(r):
        agg.add(r)
        if "violation" in r:
            agg.violations.append(r)
            return True
        return False

    workers = args.workers or min(16, os.cpu_count() or 1)
    wall = args.wall or (300 if tier == "quick" else 3000)
    consumed, reason = run_pool(_task, len(_TASKS), workers, wall, chunk=4, on_result=on_result, stop_on_violation=False)
    if agg.harness_errors:
        print("HARNESS-ERROR", agg.harness_errors[0]["harness_error"], file=sys.stderr)
        return 2
    rc = 0
    agg.dump_digests(getattr(args, "digests", None))
    seen = set()
    for r in agg.violations:
        v = r["violation"]
        key = (v["inv"], _CASES[v["case"]]["family"])
        if key in seen:
            continue
        seen.add(key)
        payload = {"property": "C20", "engine": "D", "seed": seed, "run_index": r["i"], "invariant": v["inv"], "detail": v["detail"],
                   "case": _CASES[v["case"]], "offset": v["offset"], "route": v["route"], "shared": v["shared"], "tree_hash": boot.TREE_HASH}
        path = write_replay("C20", seed, r["i"], payload)
        print(f"VIOLATION property=C20 replay={path}")
        print(f"  invariant={v['inv']} detail: {v['detail']}")
        rc = 1
    total_offsets = sum(len(f[0]) for c, f in zip(_CASES, _FILES) if not c.get("sampled"))
    complete = reason is None and consumed == len(_TASKS)
    write_evidence("C20", tier, seed, "fault_enumeration", agg, time.time() - t0,
                   "one case = one (saved file, truncation offset) crash state offered to every applicable loader; the space "
                   "is all offsets 0..len-1 of every small file in the catalogue (5 classes x shapes x contents), enumerated "
                   "completely, plus sampled offsets (both ends byte by byte, member boundaries, powers of two, seeded random) "
                   "of files above 1 MiB through every loader with and without shared_memory; distinct non-trivial "
                   "= distinct (file, offset>0) prefixes",
                   ["sketchnu save()/load() of all five classes (unmodified)", "numpy.savez / numpy.load / zipfile", "real files on tmpfs"],
                   ["zipfile member timestamps read the virtual clock (zipfile.time seam) so that saved bytes are reproducible",
                    "crash = truncation of the final byte sequence at an arbitrary offset (the property's fault model)"],
                   ["fault model is the statement's: strict prefixes of the final file; intermediate write-log states are reported as NOTE only"],
                   extra={"files": len(_FILES), "total_offsets_enumerated": total_offsets, "file_sizes": sorted(len(f[0]) for f in _FILES),
                          "large_files_sampled": sum(1 for c in _CASES if c.get("sampled")), "sampled_offsets_of_large_files": n_sampled,
                          "write_log_states_examined": note_states, "write_log_states_that_load(NOTE)": notes,
                          "stop_reason": reason or "completed", "tree_hash": boot.TREE_HASH},
                   exhaustive=complete)
    if not complete and rc == 0:
        print(f"HARNESS-ERROR enumeration incomplete ({reason})", file=sys.stderr)
        return 2
    return rc
