"""Engine W — world simulator.

Up to 5 replicas (nodes) of one sketch family, a lossy / duplicating / reordering
network whose messages are merges, a simulated disk (snapshots written by the real
save()), shared-memory views, the randomness seam of the log counters and a virtual
clock. Single-threaded discrete-event loop; every event is a self-contained JSON-able
dict, so that the event list *is* the replay file and can be delta-debugged.
"""
import gc
import hashlib
import os
import shutil
import tempfile
from collections import Counter

import numpy as np

from . import boot
from .core import Violation, hexk, unhex
from .models import ngram_windows

U32MAX = (1 << 32) - 1
COUNTING = ("linear", "log16", "log8", "hh")
CMS = ("linear", "log16", "log8")
LOG = ("log16", "log8")

_scratch = None


class CodeRaised(Exception):
    """The code under test raised inside a call the property's quantifier declares legal."""

    def __init__(self, op, exc):
        super().__init__(f"{op}: {type(exc).__name__}: {exc}")
        self.op = op
        self.exc = exc


def api(op, fn, *a, **k):
    try:
        return fn(*a, **k)
    except Exception as e:
        raise CodeRaised(op, e) from e



def scratch_dir():
    global _scratch
    if _scratch is None or not os.path.isdir(_scratch) or _scratch_pid != os.getpid():
        _new_scratch()
    return _scratch


_scratch_pid = None


def _new_scratch():
    global _scratch, _scratch_pid
    base = os.environ.get("DSIM_SCRATCH_BASE")
    if not base or not os.path.isdir(base):
        base = "/dev/shm" if os.access("/dev/shm", os.W_OK) else None
    _scratch = tempfile.mkdtemp(prefix="dsimw-", dir=base)
    _scratch_pid = os.getpid()
    import atexit

    atexit.register(_cleanup, _scratch, _scratch_pid)


def _cleanup(path, pid):
    if os.getpid() == pid:
        shutil.rmtree(path, ignore_errors=True)


# ----------------------------------------------------------------------------------
# family adapters
# ----------------------------------------------------------------------------------
def fam_kind(cfg):
    return cfg["family"]


def make_sketch(cfg, shared=False, via_factory=False):
    SK = boot.SK
    f = cfg["family"]
    w, d = cfg.get("width"), cfg.get("depth")
    if f == "linear":
        if via_factory:
            return SK.countmin.CountMin("linear", w, d, shared_memory=shared)
        return SK.countmin.CountMinLinear(w, d, shared)
    if f in LOG:
        cls = SK.countmin.CountMinLog16 if f == "log16" else SK.countmin.CountMinLog8
        if via_factory:
            sk = SK.countmin.CountMin(f, w, d, cfg["max_count"], cfg["num_reserved"], shared)
        else:
            sk = cls(w, d, cfg["max_count"], cfg["num_reserved"], shared)
        # no OS entropy in simulation: the first batch is overwritten deterministically
        install_draws(sk, 0x5EED, 0)
        return sk
    if f == "hh":
        return SK.heavyhitters.HeavyHitters(w, d, cfg["mkl"], cfg.get("phi"), shared)
    if f == "hll":
        return SK.hyperloglog.HyperLogLog(cfg["p"], cfg["seed"], shared)
    raise ValueError(f)


def sketch_args(cfg):
    """(sketch_type, args) as helpers.attach_shared_memory wants them"""
    f = cfg["family"]
    if f == "linear":
        return "cms", {"cms_type": "linear", "width": cfg["width"], "depth": cfg["depth"]}
    if f in LOG:
        return "cms", {
            "cms_type": f,
            "width": cfg["width"],
            "depth": cfg["depth"],
            "max_count": cfg["max_count"],
            "num_reserved": cfg["num_reserved"],
        }
    if f == "hh":
        return "hh", {"width": cfg["width"], "depth": cfg["depth"], "max_key_len": cfg["mkl"], "phi": cfg.get("phi")}
    return "hll", {"p": cfg["p"], "seed": cfg["seed"]}


_batch_cache = {}


def batch_for(ds, n=2048):
    """the seeded batch of n uniform draws installed for an event (n = the tree's batch length)"""
    b = _batch_cache.get((ds, n))
    if b is None:
        if len(_batch_cache) > 512:
            _batch_cache.clear()
        b = np.random.RandomState(ds & 0xFFFFFFFF).random_sample(n)
        _batch_cache[(ds, n)] = b
    return b


def map_ptr(sk, ptr):
    """Events carry the read position on the scale of a 2048-draw batch (0..2048, where
    2040..2048 mean 'that close to the end'); the tree's own batch length decides the
    real position."""
    B = len(sk.rand_nums)
    ptr = int(ptr)
    if B == 2048:
        return ptr
    if ptr >= 40:
        # positions are kept relative to the END of the batch (that is where behaviour changes)
        return max(0, B - (2048 - ptr))
    return min(ptr, B)


def install_draws(sk, ds, ptr):
    """The randomness seam: batch and read position are public attributes."""
    sk.rand_nums[:] = batch_for(ds, len(sk.rand_nums))
    sk.rand_ptr = map_ptr(sk, ptr)


def tables(sk, fam):
    """Public state arrays. Callers must not keep references (shared-memory close)."""
    if fam in CMS:
        return [sk.cms, sk.n_added_records]
    if fam == "hh":
        return [sk.lhh, sk.lhh_count, sk.key_lens, sk.n_added_records]
    return [sk.registers]


def state_bytes(sk, fam):
    """State as far as the API can tell it apart. For heavy hitters the key bytes and key
    length stored in a cell whose count is 0 are not part of it: no query, `hh[key]`, add or
    merge depends on them (a count of 0 never matches, never wins and is overwritten by any
    positive vote), so a refactoring may leave something else there."""
    if fam == "hh":
        dead = np.asarray(sk.lhh_count) == 0
        if dead.any():
            lhh = np.array(sk.lhh, copy=True)
            lhh[dead] = 0
            kl = np.array(sk.key_lens, copy=True)
            kl[dead] = 0
            return b"".join(a.tobytes() for a in (lhh, sk.lhh_count, kl, sk.n_added_records))
    return b"".join(a.tobytes() for a in tables(sk, fam))


def state_hash(sk, fam):
    return hashlib.sha1(state_bytes(sk, fam)).hexdigest()[:16]


def copy_state(sk, fam):
    return [a.copy() for a in tables(sk, fam)]


def restore_state(sk, fam, saved):
    for dst, src in zip(tables(sk, fam), saved):
        np.copyto(dst, src)


def public_params(sk, fam):
    if fam == "linear":
        return (type(sk).__name__, int(sk.width), int(sk.depth))
    if fam in LOG:
        return (type(sk).__name__, int(sk.width), int(sk.depth), int(sk.max_count), int(sk.num_reserved), float(sk.base))
    if fam == "hh":
        return (type(sk).__name__, int(sk.width), int(sk.depth), int(sk.max_key_len), float(sk.phi))
    return (type(sk).__name__, int(sk.p), int(sk.seed))


def loaders(fam):
    """name -> callable(path, shared) for every loader route applicable to the family"""
    SK = boot.SK
    if fam == "linear":
        return {"class": SK.countmin.CountMinLinear.load, "module": SK.countmin.load}
    if fam == "log16":
        return {"class": SK.countmin.CountMinLog16.load, "module": SK.countmin.load}
    if fam == "log8":
        return {"class": SK.countmin.CountMinLog8.load, "module": SK.countmin.load}
    if fam == "hh":
        return {"class": SK.heavyhitters.HeavyHitters.load}
    return {"class": SK.hyperloglog.HyperLogLog.load}


def estimate(sk, fam, key):
    if fam in CMS:
        return sk.query(key)
    if fam == "hh":
        return int(sk[key])
    raise ValueError(fam)


# ----------------------------------------------------------------------------------
# world
# ----------------------------------------------------------------------------------
class Node:
    __slots__ = ("primary", "views", "truth", "snaps", "shadow", "mass", "unknown", "gen")

    def __init__(self):
        self.primary = None
        self.views = []
        self.truth = None
        self.snaps = []
        self.shadow = None
        self.mass = 0  # total requested multiplicity ever folded in (counting families)
        self.unknown = False  # truth unknown after state injection
        self.gen = 0


class Msg:
    __slots__ = ("id", "src", "dst", "kind", "path", "truth", "mass", "srcgen")


class World:
    def __init__(self, cfg):
        self.cfg = cfg
        self.fam = cfg["family"]
        self.counting = self.fam in COUNTING
        self.mkl = cfg.get("mkl")
        self.shared = bool(cfg.get("shared"))
        # free_gen: the code's own generator (the one refills draw from) is seeded once per run
        # and then left alone, so that whatever the code does to it is visible in the refills
        self.free_gen = bool(cfg.get("free_gen"))
        if self.free_gen:
            boot.numba_seed(int(cfg.get("gen_seed", 1)))
        self.use_shadow = bool(cfg.get("shadow"))
        self.nodes = []
        self.msgs = {}
        self.next_msg = 0
        self.next_file = 0
        self.universe = {}  # identity bytes -> True, insertion ordered
        self.cells = {}  # identity -> tuple of column per row (ownership learned by probe)
        self.probe = None
        self._obs = None
        self._sharers = {}
        self.counters = Counter()
        self.probes = Counter()
        self.state_hashes = set()
        self.unraisable = []
        self.n_events = 0
        self.dir = tempfile.mkdtemp(prefix="w-", dir=scratch_dir())
        boot.CLOCK.reset()
        for _ in range(cfg["n_nodes"]):
            self.nodes.append(self._fresh_node())
        for hk in cfg.get("pool", []):
            self.note_key(unhex(hk))

    # -- lifecycle -------------------------------------------------------------
    def _fresh_node(self):
        n = Node()
        n.primary = make_sketch(self.cfg, shared=self.shared, via_factory=bool(self.cfg.get("factory")))
        n.truth = Counter() if self.counting else set()
        if self.use_shadow:
            n.shadow = make_sketch(self.cfg, shared=False)
        return n

    def close(self):
        """Drop every sketch (views first) and the scratch files."""
        for n in self.nodes:
            while n.views:
                v = n.views.pop()
                del v
            n.primary = None
            n.shadow = None
        self.nodes = []
        self.msgs = {}
        self.probe = None
        self._obs = None
        shutil.rmtree(self.dir, ignore_errors=True)

    # -- keys --------------------------------------------------------------------
    def ident(self, key):
        if self.fam == "hh":
            return key[: self.mkl]
        return key

    def note_key(self, key):
        i = self.ident(key)
        if i not in self.universe:
            self.universe[i] = True
        return i

    def owner_cells(self, ident):
        """Which counter the key owns per row, learned from an empty probe sketch after
        one add (no trust in the hash). None if the probe is not the expected shape."""
        c = self.cells.get(ident)
        if c is not None:
            return c
        if self.probe is None:
            self.probe = make_sketch(self.cfg, shared=False)
        pr = self.probe
        tab = pr.cms if self.fam in CMS else pr.lhh_count
        tab[:] = 0
        if self.fam in LOG:
            install_draws(pr, 0x5EED, 0)
        pr.add(ident, 1)
        cols = []
        ok = True
        for r in range(tab.shape[0]):
            nz = np.nonzero(tab[r])[0]
            if len(nz) != 1 or int(tab[r, nz[0]]) != 1:
                ok = False
                break
            cols.append(int(nz[0]))
        tab[:] = 0
        if self.fam == "hh":
            pr.lhh[:] = 0
            pr.key_lens[:] = 0
        pr.n_added_records[:] = 0
        c = tuple(cols) if ok else False
        if not ok:
            self.probes["ownership_probe_fallback"] += 1
        self.cells[ident] = c
        return c

    def cell_totals(self, truth):
        """per row: {column: summed true count of all universe identities owning that
        counter}; identities whose ownership could not be learned count towards every cell
        (only weakens upper bounds / lower bounds, never unsound). Linear in the universe."""
        depth = self.cfg["depth"]
        rows = [dict() for _ in range(depth)]
        wild = 0
        for ident, t in truth.items():
            if not t:
                continue
            cells = self.owner_cells(ident)
            if cells is False:
                wild += t
                continue
            for r in range(depth):
                c = cells[r]
                rows[r][c] = rows[r].get(c, 0) + t
        return rows, wild

    def sharers(self, ident):
        """per row: list of universe identities that may share ident's counter"""
        mine = self.owner_cells(ident)
        out = []
        depth = self.cfg["depth"]
        key = (ident, len(self.universe))
        hit = self._sharers.get(key)
        if hit is not None:
            return hit
        for r in range(depth):
            row = []
            for other in self.universe:
                oc = self.owner_cells(other)
                if mine is False or oc is False or oc[r] == mine[r]:
                    row.append(other)
            out.append(row)
        self._sharers[key] = out
        return out

    # -- observation ----------------------------------------------------------------
    def observer(self, sk):
        """Estimates of a count-min sketch. In 'clone' observation mode (most runs) the
        table is copied into a scratch sketch of the same parameters and the scratch is
        queried, so that looking at the sketch after every event does not touch hidden
        per-object state (the `buckets` scratch array, any cache) and cannot mask a defect
        that needs two operations with nothing in between. In 'live' mode the object itself
        is queried, as a user would."""
        if self.fam not in CMS or self.cfg.get("observe", "live") != "clone":
            return sk
        if self._obs is None:
            self._obs = make_sketch(self.cfg, shared=False)
        np.copyto(self._obs.cms, sk.cms)
        return self._obs

    # -- parties ------------------------------------------------------------------
    def party(self, node, via):
        if via and 0 < via <= len(node.views):
            return node.views[via - 1]
        return node.primary

    # -- step ---------------------------------------------------------------------
    def step(self, ev, checker=None):
        self.n_events += 1
        ctx = checker.before(self, ev) if checker is not None else None
        info = self.apply(ev)
        if checker is not None:
            checker.after(self, ev, ctx, info)
        return info

    def apply(self, ev):
        op = ev["op"]
        fn = getattr(self, "op_" + op, None)
        if fn is None:
            raise ValueError(f"unknown event {op}")
        info = fn(ev)
        self.counters[op if info is not None else "noop"] += 1
        return info

    # -- workload events -------------------------------------------------------------
    def _node(self, ev, k="node"):
        i = ev.get(k)
        if i is None or not (0 <= i < len(self.nodes)):
            return None
        n = self.nodes[i]
        if n.primary is None:
            return None
        return n

    def expansion(self, ev):
        """The canonical expansion of a workload event into (key, multiplicity) single
        adds, in order (C12's reference semantics). For HLL the multiplicity is 1."""
        op = ev["op"]
        if op == "add":
            return [(unhex(ev["key"]), ev.get("v", 1))]
        if op == "update_list":
            return [(unhex(k), 1) for k in ev["keys"]]
        if op == "update_dict":
            return [(unhex(k), v) for k, v in ev["items"]]
        if op == "add_ngram":
            return [(w, 1) for w in ngram_windows(unhex(ev["key"]), ev["n"])]
        if op == "update_ngram":
            out = []
            for k in ev["keys"]:
                out.extend((w, 1) for w in ngram_windows(unhex(k), ev["n"]))
            return out
        raise ValueError(op)

    @staticmethod
    def _num(v, vt):
        """multiplicities arrive as python ints or as numpy integers (documented as int)"""
        if vt == "int64" and v < (1 << 63):
            return np.int64(v)
        if vt == "uint64" and v < (1 << 64):
            return np.uint64(v)
        if vt == "uint32" and v <= U32MAX:
            return np.uint32(v)
        if vt == "int32" and v < (1 << 31):
            return np.int32(v)
        return v

    def _call(self, sk, ev):
        op = ev["op"]
        vt = ev.get("vt")
        if op == "add":
            if "v" in ev:
                sk.add(unhex(ev["key"]), self._num(ev["v"], vt))
            else:
                sk.add(unhex(ev["key"]))
        elif op == "update_list":
            ks = [unhex(k) for k in ev["keys"]]
            sk.update(tuple(ks) if ev.get("as_tuple") else ks)
        elif op == "update_dict":
            d = {unhex(k): self._num(v, vt) for k, v in ev["items"]}
            if ev.get("as_counter"):
                d = Counter(d)
            sk.update(d)
        elif op == "add_ngram":
            sk.add_ngram(unhex(ev["key"]), ev["n"])
        elif op == "update_ngram":
            sk.update_ngram([unhex(k) for k in ev["keys"]], ev["n"])

    def _workload(self, ev):
        n = self._node(ev)
        if n is None:
            return None
        sk = self.party(n, ev.get("via", 0))
        exp = self.expansion(ev)
        for k, _ in exp:
            self.note_key(k)
        if self.fam in LOG:
            install_draws(sk, ev.get("ds", 1), ev.get("ptr", 0))
            if ev.get("fd") is not None:
                sk.rand_nums[:] = float(ev["fd"])  # forced draws (an arbitrary, legal draw sequence)
            if not self.free_gen:
                boot.numba_seed(ev.get("ds", 1) + 1)
        api(ev["op"], self._call, sk, ev)
        if self.counting:
            for k, v in exp:
                n.truth[self.ident(k)] += v
                n.mass += v
        else:
            for k, _ in exp:
                n.truth.add(k)
        if n.shadow is not None:
            sh = n.shadow
            if self.fam in LOG:
                install_draws(sh, ev.get("ds", 1), ev.get("ptr", 0))
                boot.numba_seed(ev.get("ds", 1) + 1)
            self.shadow_apply(sh, ev, exp)
        return {"node": ev["node"], "exp": exp, "sk": sk}

    def shadow_apply(self, sh, ev, exp):
        """Shadow semantics: same event through the same entry point (C10, C16 compare
        routes, not entry points). C12 overrides this with single adds."""
        if self.cfg.get("shadow_single_adds") and not ev.get("same_route"):
            if self.fam == "hll":
                for k, _ in exp:
                    sh.add(k)
            else:
                for k, v in exp:
                    for _ in range(v):
                        sh.add(k)
        else:
            api("shadow:" + ev["op"], self._call, sh, ev)

    op_add = _workload
    op_update_list = _workload
    op_update_dict = _workload
    op_add_ngram = _workload
    op_update_ngram = _workload

    # -- network ------------------------------------------------------------------
    def _save_to(self, sk, style=0):
        self.next_file += 1
        stem = os.path.join(self.dir, f"s{self.next_file}")
        if style == 0:
            api("save", sk.save, stem + ".npz")
        elif style == 1:
            api("save", sk.save, stem)  # np.savez appends the extension
        else:
            from pathlib import Path

            api("save", sk.save, Path(stem + ".npz"))
        return stem + ".npz"

    def op_send(self, ev):
        src = self._node(ev, "src")
        dst = self._node(ev, "dst")
        if src is None or dst is None or ev["src"] == ev["dst"]:
            return None
        m = Msg()
        m.id = ev["id"]
        m.src = ev["src"]
        m.dst = ev["dst"]
        m.kind = ev["kind"]
        m.srcgen = src.gen
        if m.kind == "file":
            m.path = self._save_to(src.primary, ev.get("style", 0))
            m.truth = src.truth.copy()
            m.mass = src.mass
            if src.unknown:
                m.truth = None
        else:
            m.path = None
            m.truth = None
        self.msgs[m.id] = m
        return {"msg": m.id}

    def op_dup(self, ev):
        m = self.msgs.get(ev["id"])
        if m is None or ev["new"] in self.msgs:
            return None
        c = Msg()
        c.id = ev["new"]
        c.src, c.dst, c.kind, c.path, c.srcgen = m.src, m.dst, m.kind, m.path, m.srcgen
        c.truth = m.truth.copy() if m.truth is not None else None
        c.mass = getattr(m, "mass", 0) if m.kind == "file" else 0
        self.msgs[c.id] = c
        return {"msg": c.id}

    def op_drop(self, ev):
        m = self.msgs.pop(ev["id"], None)
        return None if m is None else {"msg": ev["id"]}

    def op_deliver(self, ev):
        m = self.msgs.get(ev["id"])
        if m is None:
            return None
        dst = self.nodes[m.dst]
        if dst.primary is None:
            return None
        del self.msgs[m.id]
        if m.kind == "file":
            other = api("load", loaders(self.fam)[ev.get("loader", "class")], m.path, False)
            otruth, omass, ounknown = m.truth, m.mass, m.truth is None
        else:
            src = self.nodes[m.src]
            if src.primary is None:
                return None
            other = src.primary
            otruth, omass, ounknown = src.truth, src.mass, src.unknown
        tgt = self.party(dst, ev.get("via", 0))
        pre_other = state_bytes(other, self.fam)
        cap = self.cfg.get("capture_merge")
        if cap:
            a_pre = copy_state(tgt, self.fam)
            b_pre = copy_state(other, self.fam)
        api("merge", tgt.merge, other)
        other_unchanged = state_bytes(other, self.fam) == pre_other
        if self.counting:
            if ounknown:
                dst.unknown = True
            else:
                dst.truth.update(otruth)
            dst.mass += omass
        else:
            dst.truth |= otruth
        if dst.shadow is not None:
            # shadow follows with an in-memory clone of the same operand
            api("shadow:merge", dst.shadow.merge, other)
        info = {"node": m.dst, "msg": m.id, "kind": m.kind, "other_unchanged": other_unchanged, "src": m.src}
        if cap:
            info["a_pre"], info["b_pre"] = a_pre, b_pre
            info["a_post"] = copy_state(tgt, self.fam)
        return info

    def op_partition(self, ev):
        return {}

    def op_heal(self, ev):
        return {}

    # -- disk ---------------------------------------------------------------------
    def op_save(self, ev):
        n = self._node(ev)
        if n is None:
            return None
        sk = self.party(n, ev.get("via", 0))
        path = self._save_to(sk, ev.get("style", 0))
        snap = {
            "path": path,
            "truth": None if n.unknown else n.truth.copy(),
            "mass": n.mass,
            "shadow": copy_state(n.shadow, self.fam) if n.shadow is not None else None,
            "bytes": state_bytes(n.primary, self.fam),
            "params": public_params(n.primary, self.fam),
        }
        n.snaps.append(snap)
        return {"node": ev["node"], "snap": len(n.snaps) - 1}

    def op_crash_restart(self, ev):
        """Crash: the live object and its views are lost; restart from a durable snapshot
        (the latest by default) through a chosen loader route."""
        n = self._node(ev)
        if n is None or not n.snaps:
            return None
        si = ev.get("snap", -1)
        if not (-len(n.snaps) <= si < len(n.snaps)):
            si = -1
        snap = n.snaps[si]
        while n.views:
            v = n.views.pop()
            del v
        n.primary = None
        ld = loaders(self.fam)
        route = ev.get("loader", "class")
        if route not in ld:
            route = "class"
        sk = api("load", ld[route], snap["path"], bool(ev.get("shared_load")))
        if self.fam in LOG:
            install_draws(sk, 0x5EED, 0)
        n.primary = sk
        n.gen += 1
        if snap["truth"] is None:
            n.unknown = True
        else:
            n.truth = snap["truth"].copy()
            n.unknown = False
        n.mass = snap["mass"]
        if n.shadow is not None and snap["shadow"] is not None:
            # a fresh in-memory object receives the shadow's state at the snapshot (rolling
            # the old object back by writing its arrays would leave its private caches,
            # e.g. the heavy-hitter candidate set, describing a future that never happened)
            n.shadow = make_sketch(self.cfg, shared=False)
            restore_state(n.shadow, self.fam, snap["shadow"])
        self.probes["restart_to_older_snapshot"] += 1 if snap is not n.snaps[-1] else 0
        return {"node": ev["node"], "snap": snap, "loader": route, "restarted": True}

    # -- shared memory views -------------------------------------------------------------
    def op_attach(self, ev):
        n = self._node(ev)
        if n is None or not self.shared or len(n.views) >= 3:
            return None
        shm = getattr(n.primary, "shm", None)
        if shm is None:
            return None
        if ev.get("how") == "helper":
            # as parallel_add does: type tag plus the owner's own `args` dict
            st, args = sketch_args(self.cfg)
            if ev.get("own_args", True) and hasattr(n.primary, "args"):
                args = n.primary.args
            v = api("attach", boot.SK.helpers.attach_shared_memory, st, args, shm.name)
        elif ev.get("how") == "shared_view":
            v = make_sketch(self.cfg, shared=True)
            v._dsim_own_segment = v.shm.name
            api("attach", v.attach_existing_shm, shm.name)
        else:
            v = make_sketch(self.cfg, shared=False)
            api("attach", v.attach_existing_shm, shm.name)
        if self.fam in LOG:
            install_draws(v, 0x5EED, 0)
        n.views.append(v)
        return {"node": ev["node"], "view": len(n.views)}

    def op_drop_view(self, ev):
        n = self._node(ev)
        if n is None or not n.views:
            return None
        k = ev.get("k", 0) % len(n.views)
        name = n.primary.shm.name if getattr(n.primary, "shm", None) is not None else None
        v = n.views.pop(k)
        own = getattr(v, "_dsim_own_segment", None)
        t0 = boot.CLOCK.now
        del v
        gc.collect()
        return {"node": ev["node"], "shm_name": name, "slept": boot.CLOCK.now - t0, "view_own": own}

    def op_drop_owner(self, ev):
        """Drop the owner (views first or owner first), then the node restarts empty."""
        n = self._node(ev)
        if n is None or getattr(n.primary, "shm", None) is None:
            return None
        name = n.primary.shm.name
        owner_first = bool(ev.get("owner_first"))
        survivors = None
        if owner_first and n.views:
            pre = state_bytes(n.primary, self.fam)
            n.primary = None
            gc.collect()
            listed_after_owner = os.path.exists("/dev/shm/" + name)
            # views keep their mapping; contents must still be readable and unchanged
            survivors = all(state_bytes(v, self.fam) == pre for v in n.views)
            while n.views:
                v = n.views.pop()
                del v
        else:
            while n.views:
                v = n.views.pop()
                del v
            gc.collect()
            listed_before = os.path.exists("/dev/shm/" + name)
            n.primary = None
            gc.collect()
            listed_after_owner = os.path.exists("/dev/shm/" + name)
            if not listed_before:
                self.probes["segment_missing_before_owner_drop"] += 1
        gc.collect()
        fresh = self._fresh_node()
        n.primary, n.truth, n.shadow = fresh.primary, fresh.truth, fresh.shadow
        n.mass, n.unknown = 0, False
        n.gen += 1
        n.snaps = []
        return {
            "node": ev["node"],
            "shm_name": name,
            "listed_after": os.path.exists("/dev/shm/" + name),
            "listed_after_owner": listed_after_owner,
            "owner_first": owner_first,
            "survivors_ok": survivors,
        }

    # -- queries / injected states ---------------------------------------------------------
    def op_query(self, ev):
        n = self._node(ev)
        if n is None:
            return None
        sk = self.party(n, ev.get("via", 0))
        if self.fam == "hh":
            res = api("query", sk.query, ev["k"], ev.get("t"))
        elif self.fam == "hll":
            res = api("query", sk.query)
        else:
            res = api("query", sk.query, unhex(ev["key"]))
        return {"node": ev["node"], "res": res, "sk": sk}

    def op_inject(self, ev):
        """Write seeded counter values straight into the table (public attribute). The
        truth model is marked unknown; only oracles that do not need truth remain on."""
        n = self._node(ev)
        if n is None or self.fam not in CMS:
            return None
        tab = n.primary.cms
        d, w = tab.shape
        mx = int(n.primary.uint_maxval)
        grid = ev.get("grid")
        targets = [n.primary] + ([n.shadow] if n.shadow is not None else [])
        for t in targets:
            tb = t.cms
            if grid == "row":  # a[i, j] = i
                tb[:] = (np.arange(d).reshape(d, 1) % (mx + 1)).astype(tb.dtype)
            elif grid == "col":  # a[i, j] = j
                tb[:] = (np.arange(w).reshape(1, w) % (mx + 1)).astype(tb.dtype)
            elif grid == "seq":  # a[i, j] = i * w + j
                tb[:] = ((np.arange(d * w).reshape(d, w)) % (mx + 1)).astype(tb.dtype)
            elif grid == "zero":
                tb[:] = 0
            elif grid == "rand":
                rs = np.random.RandomState(ev.get("gseed", 1) & 0xFFFFFFFF)
                nr_ = int(getattr(n.primary, "num_reserved", 0))
                gd = ev.get("gdist", "uniform")
                if gd == "log":  # counters in the probabilistic range
                    vals = rs.randint(min(nr_, mx), mx + 1, size=(d, w))
                elif gd == "low":
                    vals = rs.randint(0, min(nr_ + 2, mx) + 1, size=(d, w))
                else:
                    vals = rs.randint(0, mx + 1, size=(d, w))
                tb[:] = vals.astype(tb.dtype)
            for r, c, val in ev.get("cells", []):
                tb[r % d, c % w] = min(val, mx)
            if "nadd" in ev:
                t.n_added_records[0] = ev["nadd"]
            if "nrec" in ev:
                t.n_added_records[1] = ev["nrec"]
        n.unknown = True
        return {"node": ev["node"]}

    def op_skew_merge(self, ev):
        """Fault kind 'config-skewed peer': a peer that differs in exactly the parameters
        of ev["delta"] (both non-empty) is offered for merging, in one or both directions."""
        n = self._node(ev)
        if n is None:
            return None
        pcfg = dict(self.cfg)
        pcfg.update(ev["delta"])
        pfam = pcfg["family"]
        peer = make_sketch(pcfg, shared=False)
        if pfam in LOG:
            install_draws(peer, ev.get("ds", 1), 0)
            boot.numba_seed(ev.get("ds", 1) + 1)
        for hk in ev["keys"]:
            peer.add(unhex(hk))
        a = self.party(n, ev.get("via", 0))
        if ev.get("fill"):
            # make sure the local operand is non-empty too (truth follows)
            k = unhex(ev["fill"])
            if self.fam in LOG:
                install_draws(a, ev.get("ds", 1), 0)
                boot.numba_seed(ev.get("ds", 1) + 1)
            a.add(k)
            self.note_key(k)
            if self.counting:
                n.truth[self.ident(k)] += 1
                n.mass += 1
            else:
                n.truth.add(k)
            if n.shadow is not None:
                if self.fam in LOG:
                    install_draws(n.shadow, ev.get("ds", 1), 0)
                    boot.numba_seed(ev.get("ds", 1) + 1)
                n.shadow.add(k)
        pre_a = state_bytes(a, self.fam)
        pre_p = state_bytes(peer, pfam)
        outcomes = []
        for direction in ev["dirs"]:
            x, y = (a, peer) if direction == "ab" else (peer, a)
            try:
                x.merge(y)
                outcomes.append("merged")
            except TypeError:
                outcomes.append("TypeError")
            except Exception as e:  # any other exception type is reported as such
                outcomes.append(type(e).__name__)
        same_a = state_bytes(a, self.fam) == pre_a
        same_p = state_bytes(peer, pfam) == pre_p
        return {"node": ev["node"], "outcomes": outcomes, "a_unchanged": same_a, "peer_unchanged": same_p}

    def op_law(self, ev):
        """C06(a): the key's counters are set to c, one draw u is placed at the read
        position on a chosen side of the decision boundary, the key is added once."""
        n = self._node(ev)
        if n is None or self.fam not in LOG:
            return None
        key = unhex(ev["key"])
        self.note_key(key)
        cells = self.owner_cells(key)
        if cells is False:
            return None
        sk = n.primary
        maxv = int(sk.uint_maxval)
        nr = int(sk.num_reserved)
        base = float(sk.base)
        c = max(0, min(int(ev["c"]), maxv))
        for r, col in enumerate(cells):
            sk.cms[r, col] = c
        n.unknown = True
        p = 1.0 if c < nr else base ** (-float(c - nr))
        side = ev["side"]
        if side == "below":
            u = p * (1.0 - 1e-6)
        elif side == "above":
            u = p * (1.0 + 1e-6)
        elif side == "far_below":
            u = p * 0.5
        elif side == "far_above":
            u = p + (1.0 - p) * 0.5
        elif side == "zero":
            u = 0.0
        else:
            u = float(np.nextafter(1.0, 0.0))
        if not (0.0 <= u < 1.0):
            u = p * (1.0 - 1e-6)
        ptr = int(ev.get("ptr", 0)) % 2048
        install_draws(sk, ev.get("ds", 1), ptr)
        ptr = int(sk.rand_ptr) % len(sk.rand_nums)
        sk.rand_ptr = ptr
        sk.rand_nums[ptr] = u
        boot.numba_seed(ev.get("ds", 1) + 1)
        nadd0 = int(sk.n_added())
        api("add", sk.add, key, 1)
        c2 = min(int(sk.cms[r, col]) for r, col in enumerate(cells))
        return {"node": ev["node"], "c": c, "c2": c2, "u": u, "p": p, "ptr": ptr, "ptr2": int(sk.rand_ptr),
                "nr": nr, "maxval": maxv, "dn": int(sk.n_added()) - nadd0}

    def op_ctor(self, ev):
        """C18 constructor clause: an accepted log configuration decodes its maximum
        counter to max_count; otherwise the constructor raises ValueError."""
        SK = boot.SK
        cls = SK.countmin.CountMinLog8 if ev["fam"] == "log8" else SK.countmin.CountMinLog16
        try:
            if ev.get("factory"):
                sk = SK.countmin.CountMin(ev["fam"], 2, 1, ev["max_count"], ev["nr"])
            else:
                sk = cls(2, 1, ev["max_count"], ev["nr"])
        except ValueError as e:
            return {"raised": "ValueError", "msg": str(e)}
        except Exception as e:
            raise CodeRaised("ctor", e) from e
        sk.cms[:] = sk.uint_maxval
        top = float(api("query", sk.query, b"x"))
        return {"raised": None, "top": top, "base": float(sk.base), "max_count": ev["max_count"], "nr": ev["nr"]}

    def op_set_records(self, ev):
        """n_added_records[1] is the documented records counter that helpers.parallel_add
        maintains from outside; histories set it the same way."""
        n = self._node(ev)
        if n is None or self.fam not in COUNTING:
            return None
        sk = self.party(n, ev.get("via", 0))
        sk.n_added_records[1] = np.uint64(ev["n"])
        if n.shadow is not None:
            n.shadow.n_added_records[1] = np.uint64(ev["n"])
        return {"node": ev["node"]}

    def op_noop(self, ev):
        return None
