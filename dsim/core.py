"""Core shared by the three engines: seed derivation, violation type, fork pool,
delta-debugging minimiser, replay files, known findings, evidence writer."""
import concurrent.futures as cf
import faulthandler
import hashlib
import json
import multiprocessing
import os
import random
import sys
import time
import traceback

VERIF_DIR = os.path.dirname(os.path.dirname(os.path.abspath(__file__)))
EVIDENCE_DIR = os.environ.get("VERIF_EVIDENCE_DIR") or os.path.join(VERIF_DIR, "evidence")
REPLAY_DIR = os.environ.get("VERIF_REPLAY_DIR") or os.path.join(VERIF_DIR, "replays")


class Violation(Exception):
    """The property under check does not hold. `inv` names the invariant (violation class)."""

    def __init__(self, prop, inv, detail):
        super().__init__(f"{prop}:{inv}: {detail}")
        self.prop = prop
        self.inv = inv
        self.detail = detail


class HarnessError(Exception):
    pass


def derive(*parts) -> int:
    h = hashlib.sha256()
    for p in parts:
        h.update(str(p).encode())
        h.update(b"\x1f")
    return int.from_bytes(h.digest()[:16], "big")


def run_rng(prop, tier_stream, seed, run_index) -> random.Random:
    """One integer decides everything: the PRNG of run i is a pure function of
    (property, stream, VERIF_SEED, i). `tier_stream` is the same for quick and thorough so
    that thorough run i == quick run i (thorough is a superset)."""
    return random.Random(derive("sketchnu-dsim", prop, tier_stream, seed, run_index))


def hexk(b: bytes) -> str:
    return b.hex()


def unhex(s: str) -> bytes:
    return bytes.fromhex(s)


def digest_obj(obj) -> str:
    return hashlib.sha1(json.dumps(obj, sort_keys=True, separators=(",", ":")).encode()).hexdigest()[:16]


# ----------------------------------------------------------------------------------
# fork pool
# ----------------------------------------------------------------------------------
_TASK = None  # set in the parent before the pool is forked; inherited by workers


def _worker_chunk(args):
    lo, hi, per_run_timeout = args
    out = []
    for i in range(lo, hi):
        faulthandler.dump_traceback_later(per_run_timeout, exit=True)
        try:
            out.append(_TASK(i))
        except Exception:  # harness bug: classified apart from violations
            out.append({"i": i, "harness_error": traceback.format_exc()})
        finally:
            faulthandler.cancel_dump_traceback_later()
    return out


def run_pool(task, n_runs, workers, wall_cap, chunk=8, per_run_timeout=120, start=0, on_result=None,
             stop_on_violation=True):
    """Run task(i) for i in [start, start+n_runs) on a fork pool. Results are consumed in
    index order so that aggregation does not depend on completion order. Returns
    (results_consumed, stopped_early_reason)."""
    global _TASK
    _TASK = task
    t0 = time.time()
    reason = None
    consumed = 0
    if workers <= 1:
        for i in range(start, start + n_runs):
            if time.time() - t0 > wall_cap:
                reason = "wall_cap"
                break
            r = _worker_chunk((i, i + 1, per_run_timeout))[0]
            consumed += 1
            if on_result(r) and stop_on_violation:
                reason = "violation"
                break
        return consumed, reason
    ctx = multiprocessing.get_context("fork")
    chunks = [(lo, min(lo + chunk, start + n_runs), per_run_timeout) for lo in range(start, start + n_runs, chunk)]
    ex = cf.ProcessPoolExecutor(max_workers=workers, mp_context=ctx)
    try:
        pending = {}
        next_submit = 0
        next_consume = 0
        inflight_cap = workers * 3
        done_buf = {}
        while next_consume < len(chunks):
            while next_submit < len(chunks) and len(pending) < inflight_cap and reason is None:
                if time.time() - t0 > wall_cap:
                    reason = "wall_cap"
                    break
                f = ex.submit(_worker_chunk, chunks[next_submit])
                pending[f] = next_submit
                next_submit += 1
            if not pending:
                break
            done, _ = cf.wait(list(pending), timeout=per_run_timeout * chunk + 60, return_when=cf.FIRST_COMPLETED)
            if not done:
                raise HarnessError("pool stalled: no chunk completed within the timeout")
            for f in done:
                idx = pending.pop(f)
                try:
                    done_buf[idx] = f.result()
                except cf.process.BrokenProcessPool as e:
                    raise HarnessError(f"worker died (chunk {chunks[idx][:2]}): {e}")
            while next_consume in done_buf:
                for r in done_buf.pop(next_consume):
                    consumed += 1
                    if on_result(r) and stop_on_violation and reason is None:
                        reason = "violation"
                next_consume += 1
            if reason == "violation":
                break
            if reason == "wall_cap" and not pending:
                break
    finally:
        procs = list((getattr(ex, "_processes", None) or {}).values())
        ex.shutdown(wait=False, cancel_futures=True)
        for p in procs:
            try:
                p.terminate()
            except Exception:
                pass
    return consumed, reason


# ----------------------------------------------------------------------------------
# minimiser (ddmin over a list)
# ----------------------------------------------------------------------------------
def ddmin(items, fails, max_tests=4000):
    """Classic ddmin: smallest sublist (1-minimal w.r.t. chunk removal) for which
    fails(sublist) is True. `fails` must be deterministic."""
    tests = 0
    n = 2
    items = list(items)
    while len(items) >= 2 and tests < max_tests:
        size = max(1, len(items) // n)
        chunks = [items[i : i + size] for i in range(0, len(items), size)]
        reduced = False
        for k in range(len(chunks)):
            cand = [x for j, c in enumerate(chunks) if j != k for x in c]
            tests += 1
            if fails(cand):
                items = cand
                n = max(n - 1, 2)
                reduced = True
                break
        if not reduced:
            if size == 1:
                break
            n = min(len(items), n * 2)
    if len(items) == 1 and tests < max_tests:
        if fails([]):
            items = []
    return items


# ----------------------------------------------------------------------------------
# replay files and known findings
# ----------------------------------------------------------------------------------
def write_replay(prop, seed, run_index, payload):
    import re

    if isinstance(payload.get("detail"), str):
        # object addresses in exception texts are the one thing that differs between executions
        payload["detail"] = re.sub(r"0x[0-9a-f]{6,}", "0x..", payload["detail"])
    os.makedirs(REPLAY_DIR, exist_ok=True)
    path = os.path.join(REPLAY_DIR, f"{prop}-{seed}-{run_index}.json")
    tmp = path + ".tmp"
    with open(tmp, "w") as f:
        json.dump(payload, f, indent=1, sort_keys=True)
    os.replace(tmp, path)
    return path


def load_known_findings():
    p = os.path.join(VERIF_DIR, "known_findings.json")
    if not os.path.exists(p):
        return []
    with open(p) as f:
        return json.load(f).get("findings", [])


# ----------------------------------------------------------------------------------
# evidence
# ----------------------------------------------------------------------------------
class Agg:
    """Aggregates per-run results into the evidence record."""

    def __init__(self):
        self.runs = 0
        self.events = 0
        self.sim_seconds = 0.0
        self.counters = {}
        self.probes = {}
        self.sigs = set()
        self.nontrivial_sigs = set()
        self.final_states = set()
        self.states_sum = 0
        self.samples = []
        self.violations = []
        self.known = []
        self.harness_errors = []
        self.digest = hashlib.sha256()
        self.run_digests = {}
        self.hist = {}

    def dump_digests(self, path):
        if path:
            with open(path, "w") as f:
                json.dump(self.run_digests, f, sort_keys=True)

    def add(self, r):
        if "harness_error" in r:
            self.harness_errors.append(r)
            return
        self.runs += 1
        self.events += r.get("events", 0)
        self.sim_seconds += r.get("sim_s", 0.0)
        for k, v in r.get("counters", {}).items():
            self.counters[k] = self.counters.get(k, 0) + v
        for k, v in r.get("probes", {}).items():
            self.probes[k] = self.probes.get(k, 0) + v
        sig = r.get("sig")
        if sig is not None:
            self.sigs.add(sig)
            if r.get("nontrivial"):
                self.nontrivial_sigs.add(sig)
        for s in r.get("extra_nontrivial", ()):
            self.nontrivial_sigs.add(s)
        fs = r.get("final_state")
        if fs is not None:
            self.final_states.add(fs)
        self.states_sum += r.get("states", 0)
        if r.get("sample") is not None and len(self.samples) < 3:
            self.samples.append(r["sample"])
        for cell, val in r.get("hist", {}).items():
            h = self.hist.setdefault(cell, {})
            h[val] = h.get(val, 0) + 1
        self.digest.update(str(r.get("digest", "")).encode())
        self.run_digests[str(r.get("i"))] = str(r.get("digest", ""))


def write_evidence(prop, tier, seed, level, agg, wall_s, rule, real, stubbed, assumptions, extra=None,
                   exhaustive=False):
    os.makedirs(EVIDENCE_DIR, exist_ok=True)
    hours = max(wall_s, 1e-9) / 3600.0
    cov = {
        "evaluations": agg.runs,
        "distinct_nontrivial": len(agg.nontrivial_sigs),
        "rule": rule,
        "samples": agg.samples[:3],
        "exhaustive": bool(exhaustive),
        "events": agg.events,
        "runs_per_hour": int(agg.runs / hours),
        "simulated_seconds": round(agg.sim_seconds, 3),
        "fault_and_event_counts_fired": dict(sorted(agg.counters.items())),
        "reach_probes": dict(sorted(agg.probes.items())),
        "distinct_event_logs": len(agg.sigs),
        "distinct_final_states": len(agg.final_states),
        "per_run_distinct_states_sum": agg.states_sum,
        "real_components": real,
        "stubbed_components": stubbed,
        "batch_digest": agg.digest.hexdigest()[:16],
        "known_findings_reported": agg.known,
    }
    if extra:
        cov.update(extra)
    ev = {
        "property_id": prop,
        "tier": tier,
        "seed": int(seed),
        "level": level,
        "coverage": cov,
        "assumptions": assumptions,
        "wall_s": round(wall_s, 2),
        "violations": len(agg.violations),
    }
    path = os.path.join(EVIDENCE_DIR, f"{prop}.json")
    tmp = path + ".tmp"
    with open(tmp, "w") as f:
        json.dump(ev, f, indent=1, sort_keys=True)
    os.replace(tmp, path)
    return path


def reach_self_check(prop, agg, runs_done, runs_budget):
    """returns the list of required probes that stayed at zero (empty = fine)"""
    from .budgets import REQUIRED

    if runs_done * 2 < runs_budget:
        return []
    missing = []
    for name in REQUIRED.get(prop, []):
        if name.startswith("#"):
            if agg.counters.get(name[1:], 0) == 0:
                missing.append(name)
        elif agg.probes.get(name, 0) == 0:
            missing.append(name)
    return missing


class Watchdog:
    """A harness phase that runs in the parent (minimisation, replay) must never turn a
    hang into silence or into exit 0/1: after `seconds` of wall time all thread stacks are
    dumped and the process exits with 2 (harness error)."""

    def __init__(self, seconds, what):
        import threading

        self.t = threading.Timer(seconds, self.fire)
        self.t.daemon = True
        self.what = what

    def fire(self):
        try:
            faulthandler.dump_traceback(file=sys.stderr, all_threads=True)
            print(f"HARNESS-ERROR watchdog: {self.what} did not finish in time", file=sys.stderr, flush=True)
        finally:
            os._exit(2)

    def __enter__(self):
        self.t.start()
        return self

    def __exit__(self, *a):
        self.t.cancel()
        return False
