"""Real anchors for the process stub (thorough tier of C08/C19 only).

A handful of *real* spawned helpers.parallel_add calls (real multiprocessing, real
sleeps, uncontrolled schedule). They are not the deciding step: their role is to confirm
that for the same inputs the outcomes SimContext produces (result values, exception
vs. return, termination) match real multiprocessing. Each anchor runs in its own
interpreter (`dsim_main.py --anchor FILE`) with the time seams off (DSIM_REAL=1); spawned
children re-enter through dsim_main (name == "__mp_main__") so that they import the tree
under test with the same source-keyed numba cache.
"""
import json
import os
import signal
import subprocess
import sys
import tempfile
import time

VERIF_DIR = os.path.dirname(os.path.dirname(os.path.abspath(__file__)))


# ---- callback executed inside real worker processes (module level: picklable) ----------
def real_callback(q_item, *sketches, plan=None, ledger=None, tag=None):
    item_id, pairs, n_recs = q_item
    fault = (plan or {}).get(str(item_id))

    def note(what):
        fd = os.open(ledger, os.O_WRONLY | os.O_APPEND | os.O_CREAT, 0o600)
        os.write(fd, (json.dumps([item_id, os.getpid(), what]) + "\n").encode())
        os.close(fd)

    note("taken")
    phase = fault["phase"] if fault else None

    def fire():
        if fault["kind"] == "raise":
            note("raise")
            raise RuntimeError(f"injected failure on item {item_id}")
        note("die")
        code = fault.get("code", 7)
        if code < 0:
            os.kill(os.getpid(), -code)
            time.sleep(30)
        os._exit(code)

    if phase == "before":
        fire()
    half = len(pairs) // 2
    for j, (hk, v) in enumerate(pairs):
        if phase == "mid" and j == half:
            fire()
        k = bytes.fromhex(hk)
        for sk in sketches:
            sk.add(k, v)
    if phase == "mid" and half >= len(pairs):
        fire()
    if phase == "after":
        fire()
    return n_recs


def _gen(items):
    for it in items:
        yield it


ANCHORS = [
    # name, desc overrides
    ("plain_1_worker", {"n_workers": 1}),
    ("plain_2_workers", {"n_workers": 2}),
    ("plain_3_workers_odd_carry", {"n_workers": 3}),
    ("plain_5_workers", {"n_workers": 5, "only": ("cms", "hll")}),
    ("generator_items", {"n_workers": 2, "as_generator": True, "only": ("hll",)}),
    ("callback_raises_mid", {"n_workers": 2, "plan": {"1": {"kind": "raise", "phase": "mid"}, "3": {"kind": "raise", "phase": "before"}}}),
    ("worker_os_exit_7", {"n_workers": 2, "plan": {"2": {"kind": "die", "phase": "mid", "code": 7}}, "only": ("cms",)}),
    ("worker_sigkill", {"n_workers": 2, "plan": {"2": {"kind": "die", "phase": "before", "code": -9}}, "only": ("cms",)}),
]


def base_desc():
    items = []
    keys = ["6162", "63", "00", "", "6162636465666768", "ff80"]
    for i in range(6):
        pairs = [[keys[(i + j) % len(keys)], 1 + (i * j) % 3] for j in range(4)]
        items.append([i, pairs, 1 + i % 2])
    return {"seed": 1, "items": items, "n_workers": 2, "plan": {}, "delays": {}, "personality": "uniform", "victim": "worker0",
            "preempt": True, "cms_args": {"cms_type": "linear", "width": 5, "depth": 2},
            "hh_args": {"width": 3, "depth": 2, "max_key_len": 4}, "hll_args": {"p": 7, "seed": 0}}


def make_desc(over):
    d = base_desc()
    only = over.get("only")
    for k, v in over.items():
        if k != "only":
            d[k] = v
    if only:
        for n in ("cms", "hh", "hll"):
            if n not in only:
                d.pop(n + "_args", None)
    return d


# ---- child side: one real run -------------------------------------------------------------
def run_real(desc_path):
    """executed in a fresh interpreter with DSIM_REAL=1"""
    from . import boot
    from .pprops import ORACLES
    from .procsim import Outcome
    from .core import Violation

    SK = boot.boot()
    with open(desc_path) as f:
        job = json.load(f)
    desc, prop = job["desc"], job["prop"]
    items = [(it[0], [tuple(p) for p in it[1]], it[2]) for it in desc["items"]]
    ledger = desc_path + ".ledger"
    out = Outcome()
    out.result, out.exc, out.hang = None, None, None
    t0 = time.time()

    def on_alarm(signum, frame):
        raise TimeoutError("real parallel_add did not terminate within the anchor's wall limit")

    signal.signal(signal.SIGALRM, on_alarm)
    signal.alarm(job.get("limit", 240))
    try:
        out.result = SK.helpers.parallel_add(_gen(items) if desc.get("as_generator") else list(items), real_callback,
                                              n_workers=desc["n_workers"], cms_args=desc.get("cms_args"), hh_args=desc.get("hh_args"),
                                              hll_args=desc.get("hll_args"), plan=desc.get("plan", {}), ledger=ledger, tag="t")
    except TimeoutError as e:
        out.hang = str(e)
    except Exception as e:
        e.__traceback__ = None
        out.exc = e
    signal.alarm(0)
    wall = time.time() - t0
    led, fired = [], []
    if os.path.exists(ledger):
        for line in open(ledger):
            i, pid, what = json.loads(line)
            if what == "taken":
                led.append((i, pid))
            else:
                ph = desc["plan"][str(i)]["phase"]
                fired.append((i, ph, what))
    out.items = items
    out.run = {"ledger": led, "fired": fired, "segments": [], "tag": "t"}
    out.leftover = []
    out.tasks = {}
    out.errors = {}
    verdict = None
    try:
        ORACLES[prop](desc, out)
    except Violation as v:
        verdict = {"inv": v.inv, "detail": str(v.detail)}
    res = {"outcome": "hang" if out.hang else ("raised:" + type(out.exc).__name__ if out.exc is not None else "returned"),
           "oracle_violation": verdict, "wall_s": round(wall, 1), "workers_used": len({p for _, p in led}),
           "fired": fired}
    print("ANCHOR-RESULT " + json.dumps(res))
    return 0


# ---- parent side ----------------------------------------------------------------------------
def run_real_only(prop, names=None, parallel=4):
    """Runs the real spawned anchors (subprocesses only: safe to call from a side thread
    while the simulation batch runs). Returns [(name, desc, real_result)]."""
    import concurrent.futures as cf

    todo = [(n, o) for n, o in ANCHORS if (names is None or n in names)]
    if prop == "C08":
        todo = [(n, o) for n, o in todo if not o.get("plan")]
    else:
        todo = [(n, o) for n, o in todo if o.get("plan")]
    d = tempfile.mkdtemp(prefix="dsim-anchor-")

    def one(name, over):
        desc = make_desc(over)
        path = os.path.join(d, name + ".json")
        with open(path, "w") as f:
            json.dump({"desc": desc, "prop": prop, "limit": 300}, f)
        env = dict(os.environ, DSIM_REAL="1", PYTHONPATH=VERIF_DIR)
        p = subprocess.run([sys.executable, "-W", "ignore", os.path.join(VERIF_DIR, "dsim_main.py"), "--anchor", path],
                           capture_output=True, text=True, env=env, timeout=600)
        real = None
        for line in p.stdout.splitlines():
            if line.startswith("ANCHOR-RESULT "):
                real = json.loads(line[len("ANCHOR-RESULT "):])
        if real is None:
            real = {"outcome": "anchor-failed", "stderr": p.stderr[-400:]}
        return name, desc, real

    with cf.ThreadPoolExecutor(parallel) as ex:
        futs = [ex.submit(one, n, o) for n, o in todo]
        reals = [f.result() for f in futs]
    import shutil

    shutil.rmtree(d, ignore_errors=True)
    return reals


def compare_with_sim(prop, reals):
    """Same inputs through the simulator (main thread only): outcome classes must agree."""
    from .pprops import execute

    results = []
    for name, desc, real in reals:
        v, summ = execute(prop, desc, __import__("random").Random(7))
        sim_out = "hang" if summ["hang"] else ("raised:" + summ["exc"] if summ["exc"] else "returned")
        agree = (real["outcome"].split(":")[0] == sim_out.split(":")[0]) and (real.get("oracle_violation") is None) == (v is None)
        results.append({"name": name, "real": real, "sim": {"outcome": sim_out, "oracle_violation": v.inv if v else None}, "agree": agree})
    return results


def run_anchors(prop, names=None, parallel=4):
    return compare_with_sim(prop, run_real_only(prop, names, parallel))


def _unused_run_anchors(prop, names=None, parallel=4):
    """Returns a list of {name, real, sim, agree}. Called from the thorough tier."""
    from .pprops import execute
    import concurrent.futures as cf

    todo = [(n, o) for n, o in ANCHORS if (names is None or n in names)]
    if prop == "C08":
        todo = [(n, o) for n, o in todo if not o.get("plan")]
    else:
        todo = [(n, o) for n, o in todo if o.get("plan")]
    d = tempfile.mkdtemp(prefix="dsim-anchor-")
    results = []

    def one(name, over):
        desc = make_desc(over)
        path = os.path.join(d, name + ".json")
        with open(path, "w") as f:
            json.dump({"desc": desc, "prop": prop, "limit": 240}, f)
        env = dict(os.environ, DSIM_REAL="1", PYTHONPATH=VERIF_DIR)
        p = subprocess.run([sys.executable, "-W", "ignore", os.path.join(VERIF_DIR, "dsim_main.py"), "--anchor", path],
                           capture_output=True, text=True, env=env, timeout=400)
        real = None
        for line in p.stdout.splitlines():
            if line.startswith("ANCHOR-RESULT "):
                real = json.loads(line[len("ANCHOR-RESULT "):])
        if real is None:
            real = {"outcome": "anchor-failed", "stderr": p.stderr[-400:]}
        return name, desc, real

    with cf.ThreadPoolExecutor(parallel) as ex:
        futs = [ex.submit(one, n, o) for n, o in todo]
        reals = [f.result() for f in futs]
    for name, desc, real in reals:
        v, summ = execute(prop, desc, __import__("random").Random(7))
        sim_out = "hang" if summ["hang"] else ("raised:" + summ["exc"] if summ["exc"] else "returned")
        agree = (real["outcome"].split(":")[0] == sim_out.split(":")[0]) and (real.get("oracle_violation") is None) == (v is None)
        results.append({"name": name, "real": real, "sim": {"outcome": sim_out, "oracle_violation": v.inv if v else None}, "agree": agree})
    import shutil

    shutil.rmtree(d, ignore_errors=True)
    return results
