"""C08 / C19 on engine P: workload and fault-plan generation, oracles, minimisation."""
import copy
import gc
import os
import sys
import time
from collections import Counter

import numpy as np

from . import boot
from .core import (Agg, HarnessError, Violation, digest_obj, hexk, load_known_findings, run_pool, run_rng,
                   write_evidence, write_replay)
from .gen import base_pool, draw_seed64
from .procsim import EXC_NAMES, PERSONALITIES, simulate

U32MAX = (1 << 32) - 1


# ----------------------------------------------------------------------------------
# generation
# ----------------------------------------------------------------------------------
def gen_desc(rng, prop):
    d = {"seed": rng.getrandbits(30)}
    d["n_workers"] = rng.choice([1, 1, 2, 2, 3, 3, 4, 5, 6, 7, 8, 9]) if prop == "C08" else rng.choice([1, 2, 2, 3, 3, 3, 4, 5])
    d["nw_none"] = rng.random() < 0.06
    subset = rng.choice([("cms",), ("hh",), ("hll",), ("cms", "hh"), ("cms", "hll"), ("hh", "hll"), ("cms", "hh", "hll")])
    mkl = rng.choice([2, 3, 4, 8, 16])
    pool = base_pool(rng, mkl)
    if "cms" in subset:
        fam = rng.choice(["linear", "linear", "linear", "log8", "log16"])
        a = {"cms_type": fam, "width": rng.choice([1, 2, 3, 5, 8, 16, 64]), "depth": rng.randrange(1, 5)}
        if fam == "log8":
            a["max_count"], a["num_reserved"] = rng.choice([(300, 15), (5000, 15), (U32MAX, 15)])
        if fam == "log16":
            a["max_count"], a["num_reserved"] = rng.choice([(70000, 1023), (U32MAX, 1023)])
        d["cms_args"] = a
    if "hh" in subset:
        d["hh_args"] = {"width": rng.choice([1, 2, 3, 5, 8]), "depth": rng.randrange(1, 4), "max_key_len": mkl}
        if rng.random() < 0.3:
            d["hh_args"]["phi"] = rng.choice([0.5, 0.1])
    if "hll" in subset:
        d["hll_args"] = {"p": rng.choice([7, 7, 8, 10]), "seed": draw_seed64(rng)}
    n_items = rng.choice([0, 1, 2, 3, 4, 5, 6, 7, 8, 3, 4, 5])
    items = []
    for i in range(n_items):
        pairs = [[hexk(rng.choice(pool)), rng.choice([1, 1, 1, 2, 3, 5, 50])] for _ in range(rng.randrange(0, 7))]
        items.append([i, pairs, rng.choice([0, 1, 1, 2, 5])])
    d["items"] = items
    # "any list of items": some runs pass arbitrary picklable objects instead of the harness
    # tuples - falsy values, strings/ints harvested from the tree under test (sentinels)
    if rng.random() < 0.3 and items:
        from .consts import harvest

        cs = harvest(boot.SK)
        cands = [{"t": "str", "v": ""}, {"t": "int", "v": 0}, {"t": "float", "v": 0.0}, {"t": "bool", "v": False},
                 {"t": "list", "v": []}, {"t": "dict", "v": {}}, {"t": "tuple", "v": []}, {"t": "bytes", "v": ""},
                 {"t": "int", "v": -1}, {"t": "str", "v": "None"}, {"t": "int", "v": 1}]
        cands += [{"t": "str", "v": x} for x in cs["strs"]] * 2
        cands += [{"t": "bytes", "v": x.hex()} for x in cs["bytes"]]
        cands += [{"t": "int", "v": x} for x in cs["ints"][:40]]
        rng.shuffle(cands)
        seen, objs = set(), {}
        for it in items:
            if rng.random() < 0.5 and cands:
                spec = cands.pop()
                k = (spec["t"], repr(spec["v"]))
                if k not in seen and not (spec["t"] == "bool" and ("int", repr(int(spec["v"]))) in seen) \
                        and not (spec["t"] in ("int", "float") and any(kk[1] in (repr(spec["v"]), repr(float(spec["v"])), repr(int(spec["v"]))) for kk in seen)):
                    seen.add(k)
                    objs[str(it[0])] = spec
        d["item_objs"] = objs
    d["personality"] = rng.choice(PERSONALITIES)
    d["victim"] = f"worker{rng.randrange(d['n_workers'])}"
    d["preempt"] = rng.random() < 0.8
    # the callback "returns the number of records": python ints and numpy integers alike
    d["ret_type"] = rng.choice(["int", "int", "int64", "uint64", "int32"])
    # statement-level pre-emption inside helpers.py: off, rare, frequent
    d["line_p"] = rng.choice([0.0, 0.0, 0.02, 0.1, 0.3, 0.6])
    # a pre-empted process may stay descheduled for simulated time (stalled node), so that
    # timers of other processes fire while it sits between two statements
    d["stall_p"] = rng.choice([0.0, 0.1, 0.3, 0.6])
    d["feed_p"] = rng.choice([0.0, 0.0, 0.0, 0.3, 0.8])
    # simulated processing times: most items are instantaneous, some are slow (stalled worker)
    delays = {}
    if rng.random() < 0.6:
        for it in items:
            if it[1] and rng.random() < 0.5:
                delays[str(it[0])] = [round(rng.choice([0, 0, 0.1, 0.4, 1.0, 1.0, 2.5, 7.0]) * rng.random(), 3) for _ in it[1]]
    d["delays"] = delays
    d["plan"] = {}
    if prop == "C08":
        d["as_generator"] = rng.random() < 0.15
    else:
        mode = rng.choice(["raise", "raise", "die"]) if items else "raise"
        d["fault_mode"] = mode
        if mode == "raise":
            for it in items[:5]:
                if rng.random() < 0.45:
                    d["plan"][str(it[0])] = {"kind": "raise", "phase": rng.choice(["before", "mid", "after"]),
                                             "exc": rng.choice(EXC_NAMES) if rng.random() < 0.7 else "RuntimeError"}
        else:
            how = rng.choice(["item", "item", "take", "pill"])
            # os._exit codes and deaths by signal (-9 is what the kernel OOM killer leaves)
            d["death_code"] = rng.choice([7, 1, 137, 255, -9, -9, -15, -11])
            if how == "item":
                it = rng.choice(items)
                d["plan"][str(it[0])] = {"kind": "die", "phase": rng.choice(["before", "mid", "after"]), "code": d["death_code"]}
            elif how == "take":
                d["take_death"] = [d["victim"], rng.randrange(1, 3)]
            else:
                d["pill_death"] = d["victim"]
    return d


# ----------------------------------------------------------------------------------
# oracles
# ----------------------------------------------------------------------------------
def _fail(prop, inv, detail):
    raise Violation(prop, inv, detail)


def _probe_cells(make, tab_name, key):
    pr = make()
    pr.add(key, 1)
    tab = getattr(pr, tab_name)
    cols = []
    for r in range(tab.shape[0]):
        nz = np.nonzero(tab[r])[0]
        if len(nz) != 1:
            return None
        cols.append(int(nz[0]))
    return tuple(cols)


def _make_cms(args):
    sk = boot.SK.countmin.CountMin(**args)
    if hasattr(sk, "rand_nums"):
        from .world import install_draws

        install_draws(sk, 99, 0)
    return sk


def stream_truth(items, mkl=None):
    t = Counter()
    for _, pairs, _ in items:
        for hk, v in pairs:
            k = bytes.fromhex(hk)
            t[k[:mkl] if mkl else k] += v
    return t


def check_contains(prop, desc, result_map, ok_items, all_items, exact):
    """Shared by C08 (exact=True: ok_items == all_items) and C19(i) (lower bounds only)."""
    SK = boot.SK
    if "hll" in result_map:
        hll = result_map["hll"]
        seq = SK.hyperloglog.HyperLogLog(**desc["hll_args"])
        for _, pairs, _ in ok_items:
            for hk, v in pairs:
                seq.add(bytes.fromhex(hk))
        if exact:
            if hll.registers.tobytes() != seq.registers.tobytes():
                _fail(prop, "hll_ne_sequential", f"registers differ from the sequentially built sketch in "
                                                 f"{int((hll.registers != seq.registers).sum())} places")
        elif (hll.registers < seq.registers).any():
            _fail(prop, "hll_lacks_successful_item", "a register is below that of the successful items' keys")
    n_recs_ok = sum(n for _, _, n in ok_items)
    if "cms" in result_map:
        cms = result_map["cms"]
        args = desc["cms_args"]
        truth_ok = stream_truth(ok_items)
        truth_all = stream_truth(all_items)
        total_ok = sum(truth_ok.values())
        if int(cms.n_records()) != n_recs_ok:
            _fail(prop, "cms_n_records_wrong", f"n_records()={int(cms.n_records())}, successful callbacks returned {n_recs_ok} in total")
        if exact and int(cms.n_added()) != total_ok:
            _fail(prop, "cms_n_added_wrong", f"n_added()={int(cms.n_added())}, total multiplicity added {total_ok}")
        linear = args["cms_type"] == "linear"
        cells = {}
        for k in truth_all:
            cells[k] = _probe_cells(lambda: _make_cms(args), "cms", k)
        for k, t in truth_all.items():
            est = cms.query(k)
            tok = truth_ok.get(k, 0)
            if linear:
                if int(est) < min(tok, U32MAX):
                    _fail(prop, "cms_lower_bound", f"key {k.hex()}: estimate {int(est)} < true count {tok} of the "
                                                    f"{'whole stream' if exact else 'successful items'}")
                if exact and cells[k] is not None:
                    best = None
                    for r, col in enumerate(cells[k]):
                        tot = sum(v for o, v in truth_all.items() if cells[o] is None or cells[o][r] == col)
                        best = tot if best is None else min(best, tot)
                    if int(est) > min(best, U32MAX):
                        _fail(prop, "cms_upper_bound", f"key {k.hex()}: estimate {int(est)} > classic count-min value {best}")
            else:
                nr1 = int(cms.num_reserved) + 1
                if float(est) < min(tok, nr1):
                    _fail(prop, "cms_lower_bound", f"key {k.hex()}: estimate {est} < min(true {tok}, num_reserved+1)")
    if "hh" in result_map:
        hh = result_map["hh"]
        args = desc["hh_args"]
        mkl = args["max_key_len"]
        truth_ok = stream_truth(ok_items, mkl)
        truth_all = stream_truth(all_items, mkl)
        if int(hh.n_records()) != n_recs_ok:
            _fail(prop, "hh_n_records_wrong", f"n_records()={int(hh.n_records())}, successful callbacks returned {n_recs_ok} in total")
        if exact and int(hh.n_added()) != sum(truth_ok.values()):
            _fail(prop, "hh_n_added_wrong", f"n_added()={int(hh.n_added())}, total multiplicity added {sum(truth_ok.values())}")
        mk = lambda: SK.heavyhitters.HeavyHitters(**args)
        cells = {k: _probe_cells(mk, "lhh_count", k) for k in truth_all}
        for k, tall in truth_all.items():
            c = int(hh[k])
            if c > tall:
                _fail(prop, "hh_overcount", f"hh[{k.hex()}]={c} > true count {tall}")
            f = truth_ok.get(k, 0)
            if f <= 0:
                continue
            B = None
            depth = args.get("depth", 4)
            for r in range(depth):
                W = sum(v for o, v in truth_all.items() if cells[k] is None or cells[o] is None or cells[o][r] == cells[k][r])
                b = 2 * f - W
                B = b if B is None else max(B, b)
            if B is not None and B > 0:
                if c < B:
                    _fail(prop, "hh_dominant_key_undercounted", f"hh[{k.hex()}]={c} < 2f-W={B} (f={f})")
                res = hh.query(10 ** 6, 0)
                if not any(kk == k and int(cc) >= B for kk, cc in res):
                    _fail(prop, "hh_dominant_key_not_reported", f"query(inf,0) lacks {k.hex()} with count >= {B}")


def result_mapping(prop, desc, result):
    SK = boot.SK
    want = [n for n in ("cms", "hh", "hll") if desc.get(n + "_args")]
    res = result if isinstance(result, tuple) else (result,)
    if len(res) != len(want):
        _fail(prop, "result_shape", f"expected {want}, got {len(res)} sketches")
    cls = {"cms": SK.countmin.CountMinLinear, "hh": SK.heavyhitters.HeavyHitters, "hll": SK.hyperloglog.HyperLogLog}
    m = {}
    for name, sk in zip(want, res):
        if not isinstance(sk, cls[name]) or (name == "cms" and isinstance(sk, SK.heavyhitters.HeavyHitters)):
            _fail(prop, "result_order_or_class", f"position of {name}: got {type(sk).__name__}")
        m[name] = sk
    if "cms" in m:
        tname = {"linear": "CountMinLinear", "log16": "CountMinLog16", "log8": "CountMinLog8"}[desc["cms_args"]["cms_type"]]
        if type(m["cms"]).__name__ != tname:
            _fail(prop, "result_order_or_class", f"cms is a {type(m['cms']).__name__}, expected {tname}")
    return m


def check_segments(prop, out):
    names = list(out.run["segments"])
    out.result = None
    gc.collect()
    left = [n for n in names if os.path.exists("/dev/shm/" + n)]
    return left


def oracle_c08(desc, out):
    prop = "C08"
    if out.hang:
        _fail(prop, "hang", out.hang)
    if out.exc is not None:
        inv = "generator_items_rejected" if desc.get("as_generator") else "raised"
        _fail(prop, f"{inv}:{type(out.exc).__name__}", f"parallel_add raised {type(out.exc).__name__}: {out.exc}")
    m = result_mapping(prop, desc, out.result)
    led = Counter(i for i, _ in out.run["ledger"])
    ids = [it[0] for it in out.items]
    if sorted(led.elements()) != sorted(ids):
        missing = [i for i in ids if led[i] == 0]
        dup = [i for i in ids if led[i] > 1]
        _fail(prop, "items_not_exactly_once", f"missing={missing} duplicated={dup} (n_workers={desc['n_workers']})")
    if out.run.get("kwargs_lost"):
        _fail(prop, "kwargs_not_passed", "callback did not receive the keyword arguments")
    check_contains(prop, desc, m, out.items, out.items, exact=True)
    if out.leftover:
        _fail(prop, "process_left_running", f"{out.leftover} still alive when parallel_add returned")
    # a child that exits non-zero while parallel_add still returns a complete result is not
    # against the statement (the pinned filler does so for empty input): recorded, not flagged
    out.children_failed = {n: c for n, c in out.tasks.items() if c not in (0,)}
    m = None
    left = check_segments(prop, out)
    if left:
        _fail(prop, "segment_leaked", f"{left} still listed in /dev/shm after the results were dropped")


def oracle_c19(desc, out):
    prop = "C19"
    died = [f for f in out.run["fired"] if f[2] == "die"]
    if out.hang:
        _fail(prop, "hang", out.hang)
    if died:
        if out.exc is None:
            _fail(prop, "worker_death_unreported", f"a worker died ({died[0]}) but parallel_add returned a result "
                                                   f"(exit codes {out.tasks})")
        out.result = None
        return
    if out.exc is not None:
        _fail(prop, f"raised:{type(out.exc).__name__}", f"no worker died, yet parallel_add raised {type(out.exc).__name__}: {out.exc}")
    m = result_mapping(prop, desc, out.result)
    failed = {f[0] for f in out.run["fired"] if f[2] == "raise"}
    planned = {int(k) for k, v in desc.get("plan", {}).items() if v["kind"] == "raise"}
    ids = {it[0] for it in out.items}
    if failed != (planned & ids):
        _fail(prop, "items_not_exactly_once", f"planned failures {sorted(planned & ids)} but fired {sorted(failed)}")
    ok_items = [it for it in out.items if it[0] not in failed]
    check_contains(prop, desc, m, ok_items, out.items, exact=not failed)
    m = None
    left = check_segments(prop, out)
    if left:
        _fail(prop, "segment_leaked", f"{left} still listed in /dev/shm")


ORACLES = {"C08": oracle_c08, "C19": oracle_c19}


# ----------------------------------------------------------------------------------
# run / replay / minimise
# ----------------------------------------------------------------------------------
_STUB_NAMES = ("SimProcess", "SimQueue", "SimContext", "SimSentinel", "SimDatetime", "SimEvent", "SimLock", "_FakePsutil")


def _stub_gap(out):
    """An AttributeError/TypeError/NotImplementedError about one of the stub classes, in the
    parent or in a simulated child: the code asked the stub for something it does not model."""
    cands = [out.exc] + list((getattr(out, "errors", None) or {}).values())
    for e in cands:
        if e is None:
            continue
        txt = e if isinstance(e, str) else f"{type(e).__name__}: {e}"
        if any(k in txt for k in ("AttributeError", "NotImplementedError", "TypeError")) and any(n in txt for n in _STUB_NAMES):
            return txt[:300]
    return None


def execute(prop, desc, rng=None):
    """returns (violation|None, outcome-summary)"""
    out = simulate(desc, rng)
    summ = {"steps": out.sched.steps, "sim_s": out.sched.now, "decisions": list(out.sched.decisions),
            "line_decisions": dict(out.sched.ldecisions), "line_yields": out.sched.line_yields, "line_stalls": out.sched.line_stalls,
            "stats": dict(out.sched.stats), "ledger": list(out.run["ledger"]), "fired": list(out.run["fired"]),
            "tasks": dict(out.tasks), "exc": type(out.exc).__name__ if out.exc is not None else None,
            "hang": out.hang, "trace_digest": digest_obj([(a, b) for _, a, b in out.sched.trace]),
            "attaches": out.run["attaches"], "segments": len(out.run["segments"]), "unraisable": len(out.unraisable),
            "children_failed": len(getattr(out, "children_failed", {}) or {}),
            "queue_depth": max((q.max_depth for q in out.sched.queues.values() if q.maxsize), default=0)}
    v = None
    gap = _stub_gap(out)
    if gap:
        out.result = None
        out.sched = None
        raise HarnessError("the tree under test uses a multiprocessing facility that the process stub does not model "
                           f"(no verdict possible, this is not a violation): {gap}")
    try:
        ORACLES[prop](desc, out)
    except Violation as e:
        v = e
    finally:
        out.result = None
        out.sched = None
        gc.collect()
    return v, summ


def run_one(prop, rng, idx):
    desc = gen_desc(rng, prop)
    v, summ = execute(prop, desc, rng)
    asg = sorted((i, w) for i, w in summ["ledger"])
    per_worker = {}
    for i, w in summ["ledger"]:
        per_worker.setdefault(w, []).append(i)
    nwork = desc["n_workers"]
    probes = Counter()
    probes["worker_got_only_the_poison_pill"] += sum(1 for j in range(nwork) if f"worker{j}" not in per_worker and summ["tasks"].get(f"worker{j}") == 0)
    probes["filler_blocked_on_full_queue"] += 1 if summ["stats"]["queue_full_blocks"] else 0
    probes["odd_sketch_carried_in_merge_round"] += 1 if nwork in (3, 5, 6, 7, 9) else 0
    probes["one_worker_took_every_item"] += 1 if len(per_worker) == 1 and len(summ["ledger"]) > 1 and nwork > 1 else 0
    probes["generator_items"] += 1 if desc.get("as_generator") else 0
    probes["callback_raised"] += sum(1 for f in summ["fired"] if f[2] == "raise")
    probes["worker_died"] += sum(1 for f in summ["fired"] if f[2] == "die")
    probes["parallel_add_raised_after_death"] += 1 if summ["exc"] and any(f[2] == "die" for f in summ["fired"]) else 0
    probes["kills_issued"] += summ["stats"]["kills"]
    probes["child_exited_nonzero_but_result_complete"] += summ.get("children_failed", 0)
    probes["unraisable_in_del"] += summ["unraisable"]
    counters = Counter()
    counters["scheduling_decisions"] = summ["steps"]
    counters["task_switches"] = summ["stats"]["switches"]
    counters["line_preemptions_in_helpers"] = summ["line_yields"]
    counters["line_stalls_in_helpers"] = summ["line_stalls"]
    counters["clock_jumps"] = summ["stats"]["clock_jumps"]
    counters["shm_attaches"] = summ["attaches"]
    counters["shm_segments_created"] = summ["segments"]
    counters["personality:" + desc["personality"]] = 1
    for f in summ["fired"]:
        counters[f"fault:{f[2]}:{f[1] if isinstance(f[1], str) and f[0] not in ('pill', 'take') else f[0]}"] += 1
    res = {"i": idx, "events": summ["steps"], "sim_s": summ["sim_s"], "counters": dict(counters), "probes": dict(probes),
           "sig": summ["trace_digest"] + digest_obj(desc)[:6], "nontrivial": nwork > 1 or bool(summ["fired"]),
           "final_state": digest_obj([asg, desc["n_workers"]]), "states": 0,
           "digest": summ["trace_digest"] + str(summ["exc"]) + str(v.inv if v else "")}
    res["extra"] = {"assignment": digest_obj(asg), "orders": digest_obj(sorted(per_worker.items()))}
    if idx < 3:
        res["sample"] = {"n_workers": nwork, "sketches": [n for n in ("cms", "hh", "hll") if desc.get(n + "_args")],
                         "items": len(desc["items"]), "plan": desc.get("plan"), "personality": desc["personality"],
                         "schedule_head": summ["decisions"][:30], "steps": summ["steps"], "simulated_s": summ["sim_s"],
                         "item_to_worker": asg, "exit_codes": summ["tasks"], "exception": summ["exc"]}
    if v is not None:
        d2 = copy.deepcopy(desc)
        d2["decisions"] = summ["decisions"]
        d2["line_decisions"] = summ["line_decisions"]
        res["violation"] = {"prop": v.prop, "inv": v.inv, "detail": str(v.detail)[:1500], "desc": d2}
    return res


def minimise(prop, desc, inv, budget=2500, wall=150.0):
    """Shrink the run description while the same violation class persists: drop items,
    workers, sketch types, faults and delays; then delta-debug the schedule (line
    pre-emptions/stalls first, then the scheduler's choices, towards 'always pick the
    first runnable task')."""
    from .core import ddmin

    tests = [0]
    t0 = time.time()

    def fails(d):
        if tests[0] >= budget or time.time() - t0 > wall:
            return False
        tests[0] += 1
        v, _ = execute(prop, d)
        return v is not None and v.prop == prop and v.inv == inv

    if not fails(desc):
        return desc, False
    cur = desc

    def structural(cur):
        changed = True
        while changed:
            changed = False
            for j in range(len(cur["items"])):
                d = copy.deepcopy(cur)
                it = d["items"].pop(j)
                d["plan"].pop(str(it[0]), None)
                d["delays"].pop(str(it[0]), None)
                if fails(d):
                    cur, changed = d, True
                    break
            if changed:
                continue
            cands = []
            if cur["n_workers"] > 1:
                d = copy.deepcopy(cur)
                d["n_workers"] -= 1
                cands.append(d)
            for name in ("cms_args", "hh_args", "hll_args"):
                if cur.get(name) and sum(1 for n in ("cms_args", "hh_args", "hll_args") if cur.get(n)) > 1:
                    d = copy.deepcopy(cur)
                    d.pop(name)
                    cands.append(d)
            for k in list(cur.get("plan", {})):
                d = copy.deepcopy(cur)
                d["plan"].pop(k)
                cands.append(d)
            if cur.get("delays"):
                d = copy.deepcopy(cur)
                d["delays"] = {}
                cands.append(d)
            for j, it in enumerate(cur["items"]):
                if len(it[1]) > 1:
                    d = copy.deepcopy(cur)
                    d["items"][j][1] = it[1][:1]
                    cands.append(d)
            for d in cands:
                if fails(d):
                    cur, changed = d, True
                    break
        return cur

    cur = structural(cur)
    # 1. line pre-emptions / stalls: delta-debug the set of (task, line index) keys
    ld = dict(cur.get("line_decisions") or {})
    if ld:
        def with_ld(keys):
            d = copy.deepcopy(cur)
            d["line_decisions"] = {k: ld[k] for k in keys}
            return d

        if fails(with_ld([])):
            cur = with_ld([])
        else:
            def _order(k):
                name, idx = k.split(":", 1)
                put = idx.startswith("put")
                return (name, 1 if put else 0, int(idx[3:] if put else idx))

            keys = sorted(ld, key=_order)
            kept = ddmin(keys, lambda ks: fails(with_ld(ks)), max_tests=budget)
            cand = with_ld(kept)
            if fails(cand):
                cur = cand
            for k, x in list(cur["line_decisions"].items()):
                if x > 0 and ":put" not in k:
                    for alt in (-1, 0.05):
                        if alt == x:
                            continue
                        d = copy.deepcopy(cur)
                        d["line_decisions"][k] = alt
                        if fails(d):
                            cur = d
                            break
    # 2. scheduler choices: towards "always the first runnable task"
    dec = list(cur.get("decisions") or [])
    pos = [j for j, x in enumerate(dec) if x]
    if pos:
        def with_dec(keep):
            d = copy.deepcopy(cur)
            ks = set(keep)
            d["decisions"] = [x if j in ks else "" for j, x in enumerate(dec)]
            return d

        if fails(with_dec([])):
            cur = with_dec([])
        else:
            kept = ddmin(pos, lambda keep: fails(with_dec(keep)), max_tests=budget)
            cand = with_dec(kept)
            if fails(cand):
                cur = cand
        lst = list(cur["decisions"])
        while lst and not lst[-1]:
            lst.pop()
        cur["decisions"] = lst
    cur = structural(cur)
    return cur, True


def replay(prop, payload):
    if payload.get("engine") == "A":
        from .anchor import run_anchors

        for a in run_anchors(prop, names=[payload["anchor"]]):
            ov = a["real"].get("oracle_violation")
            if ov:
                return Violation(prop, ov["inv"], ov["detail"])
        return None
    v, _ = execute(prop, payload["desc"])
    return v


REAL_P = ["helpers.parallel_add, _fill_queue, _log_worker, _worker, parallel_merging, _merge_worker, attach_shared_memory (unmodified)",
          "all sketch classes and numba kernels", "multiprocessing.shared_memory.SharedMemory (real /dev/shm segments)",
          "pickle for everything that crosses a simulated process boundary (Process args at start, queue items at put)"]
STUB_P = ["multiprocessing.get_context('spawn') -> SimContext (SimProcess = baton-passing thread, SimQueue = bounded FIFO with per-process close state); seam: module-level name helpers.get_context",
          "time.sleep -> virtual clock and scheduling point; datetime.now -> virtual clock (+1us per read)",
          "OS scheduling -> seeded scheduler choosing the next runnable task at every queue/process/sleep operation and callback point",
          "OS entropy of log-sketch batches -> seeded (helpers.CountMin wrapper); SharedMemory -> recording subclass (name seam)",
          "worker death = BaseException raised in the worker task with a non-zero exit code (stack unwinds, unlike os._exit)",
          "automatic cyclic GC disabled during a run (finaliser timing is not a schedule the simulator controls)"]


def run_check(prop, tier, seed, args):
    from .budgets import BUDGETS

    b = BUDGETS.get(prop, {}).get(tier, {"runs": 1500, "wall": 90} if tier == "quick" else {"runs": 150000, "wall": 1500})
    n_runs = args.runs or b["runs"]
    wall = args.wall or b["wall"]
    workers = args.workers or min(16, os.cpu_count() or 1)
    from multiprocessing import resource_tracker

    resource_tracker.ensure_running()
    import logging

    lg = logging.getLogger("sketchnu.helpers")
    lg.addHandler(logging.NullHandler())
    lg.propagate = False
    agg = Agg()
    assignments, orders = set(), set()
    t0 = time.time()
    # real spawned anchors run beside the simulation batch: all of them in the thorough tier,
    # a reduced set in the quick tier (separate address spaces are the one thing the
    # thread-based process stub cannot provide)
    import threading

    want_anchors = None if (tier == "thorough" or os.environ.get("DSIM_ANCHORS") == "1") else \
        (["plain_3_workers_odd_carry"] if prop == "C08" else ["callback_raises_mid", "worker_os_exit_7"])
    if os.environ.get("DSIM_ANCHORS") == "0" or getattr(args, "runs", None):
        want_anchors = []
    anchor_proc = None
    if want_anchors != []:
        # a separate interpreter (no side thread in this process: the pool below is forked)
        import subprocess, json as _json

        env = dict(os.environ, DSIM_REAL="1")
        anchor_proc = subprocess.Popen([sys.executable, "-W", "ignore", os.path.join(os.path.dirname(os.path.dirname(os.path.abspath(__file__))), "dsim_main.py"),
                                        "--anchor-batch", prop, _json.dumps(want_anchors)], stdout=subprocess.PIPE, stderr=subprocess.PIPE,
                                       text=True, env=env)

    def task(i):
        return run_one(prop, run_rng(prop, "P", seed, i), i)

    def on_result(r):
        agg.add(r)
        ex = r.get("extra")
        if ex:
            assignments.add(ex["assignment"])
            orders.add(ex["orders"])
        if "violation" in r:
            agg.violations.append(r)
            return True
        return False

    consumed, reason = run_pool(task, n_runs, workers, wall, chunk=8, on_result=on_result, per_run_timeout=120)
    if agg.harness_errors:
        print("HARNESS-ERROR", agg.harness_errors[0]["harness_error"], file=sys.stderr)
        return 2
    rc = 0
    agg.dump_digests(getattr(args, "digests", None))
    from .cli import classify_known, verify_replay_fresh

    seen = set()
    unreproduced = []
    for r in agg.violations:
        v = r["violation"]
        if v["inv"] in seen:
            continue
        seen.add(v["inv"])
        from .core import Watchdog

        with Watchdog(900, f"minimisation of {prop} run {r['i']}"):
            mdesc, ok = minimise(prop, v["desc"], v["inv"])
        # shrunk first; if that does not fail in a fresh interpreter (the tree keeps state
        # across executions), the run exactly as the worker executed it
        cands = ([mdesc] if ok else []) + [v["desc"]]
        done = False
        why = f"violation of run {r['i']} ({v['inv']}: {v['detail']}) did not reproduce in-process"
        for ci, cdesc in enumerate(cands):
            vv, summ = execute(prop, cdesc)
            if vv is None or vv.inv != v["inv"]:
                continue
            payload = {"property": prop, "engine": "P", "seed": seed, "run_index": r["i"], "invariant": vv.inv, "detail": str(vv.detail),
                       "desc": cdesc, "schedule_trace_digest": summ["trace_digest"], "exit_codes": summ["tasks"], "tree_hash": boot.TREE_HASH}
            if cdesc is not mdesc or not ok:
                payload["note"] = "not minimised: the shrunk schedule did not fail in a fresh interpreter"
            known = classify_known(prop, payload)
            if known is not None:
                print(f"KNOWN-FINDING: property={prop} {known['what']}")
                agg.known.append(known["id"])
                done = True
                break
            path = write_replay(prop, seed, r["i"], payload)
            okf, outp = verify_replay_fresh(prop, path, payload["invariant"])
            if not okf:
                why = f"replay {path} of run {r['i']} ({v['inv']}) did not reproduce in a fresh interpreter:\n{outp}"
                continue
            print(f"VIOLATION property={prop} replay={path}")
            print(f"  invariant={vv.inv} run={r['i']} seed={seed} items={len(cdesc['items'])} n_workers={cdesc['n_workers']}")
            print(f"  detail: {vv.detail}")
            rc = 1
            done = True
            break
        if not done:
            unreproduced.append(why)
    if unreproduced:
        for u in unreproduced:
            print(("NOTE " if rc == 1 else "HARNESS-ERROR ") + u, file=sys.stderr)
        if rc == 0:
            return 2
    anchors = None
    if anchor_proc is not None:
        import json as _json

        try:
            so, se = anchor_proc.communicate(timeout=1200)
        except Exception as e:
            anchor_proc.kill()
            print(f"HARNESS-ERROR real anchors did not complete: {e!r}", file=sys.stderr)
            return 2
        reals = None
        for line in so.splitlines():
            if line.startswith("ANCHOR-BATCH "):
                reals = _json.loads(line[len("ANCHOR-BATCH "):])
        if reals is None:
            print(f"HARNESS-ERROR real anchors produced no result: {se[-600:]}", file=sys.stderr)
            return 2
        anchor_box = {"real": [tuple(x) for x in reals]}
        from .anchor import compare_with_sim

        anchors = compare_with_sim(prop, anchor_box["real"])
        for a in anchors:
            if a["real"].get("oracle_violation"):
                payload = {"property": prop, "engine": "A", "seed": seed, "run_index": -2, "invariant": a["real"]["oracle_violation"]["inv"],
                           "detail": "REAL spawned parallel_add: " + a["real"]["oracle_violation"]["detail"], "anchor": a["name"],
                           "tree_hash": boot.TREE_HASH}
                path = write_replay(prop, seed, "anchor-" + a["name"], payload)
                print(f"VIOLATION property={prop} replay={path}")
                print(f"  invariant={payload['invariant']} (real multiprocessing, schedule not controlled) detail: {payload['detail']}")
                rc = 1
            elif not a["agree"]:
                if rc == 1 or agg.violations:
                    # a violation of this property is already on the table: on such a tree the
                    # outcome may well depend on the schedule, and the real run had another one
                    print(f"NOTE real anchor {a['name']} and its simulated twin differ (real={a['real']['outcome']}, "
                          f"sim={a['sim']}): expected on a tree whose outcome depends on the schedule", file=sys.stderr)
                    continue
                print(f"HARNESS-ERROR process stub does not conform to real multiprocessing on anchor {a['name']}: "
                      f"real={a['real']} sim={a['sim']}", file=sys.stderr)
                return 2
    if rc == 0:
        from .core import reach_self_check

        missing = reach_self_check(prop, agg, agg.runs, b["runs"])
        if missing:
            print(f"HARNESS-ERROR reach probes stuck at zero for {prop}: {missing}", file=sys.stderr)
            return 2
    nre = 0
    if rc == 0 and not agg.violations:
        from .cli import recheck_sample

        nre = recheck_sample(task, agg)
        if nre < 0:
            return 2
    write_evidence(prop, tier, seed, "exploration", agg, time.time() - t0,
                   "one case = one simulated parallel_add call (workload, worker count, sketch subset, fault plan and scheduler "
                   "personality drawn per run; every scheduling decision from the run PRNG); distinct = distinct sha1 of "
                   "(schedule trace, description); non-trivial = more than one worker or at least one injected fault",
                   REAL_P, STUB_P,
                   ["the process model reproduces the multiprocessing behaviours the property relies on (pickling at start/put, bounded FIFO, "
                    "exit codes, asynchronous kill, per-process closed-queue errors); feeder threads, pipes and signals inside kernels are not modelled",
                    "sampling, not proof"],
                   extra={"distinct_item_to_worker_assignments": len(assignments), "distinct_per_worker_orders": len(orders),
                          "stop_reason": reason or "completed", "runs_requested": n_runs, "workers": workers, "tree_hash": boot.TREE_HASH,
                          "runs_reexecuted_for_determinism": nre,
                          "real_spawned_anchors": anchors if anchors is not None else "skipped (--runs given or DSIM_ANCHORS=0)"})
    return rc
