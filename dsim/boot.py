"""Process boot: environment pinning, numba cache keyed by the source tree, import of
the sketchnu working tree under test, and installation of the time seams.

Everything here runs exactly once per interpreter, before any sketch is created.
"""
import hashlib
import os
import shutil
import sys
import time as _real_time

VERIF_DIR = os.path.dirname(os.path.dirname(os.path.abspath(__file__)))
REPO = os.environ.get("VERIF_REPO", "/repo")

_booted = False
SK = None  # namespace with the imported sketchnu modules
TREE_HASH = None


def tree_hash(repo=None):
    """sha256 over the names and contents of every sketchnu/*.py of the tree under test."""
    repo = repo or REPO
    h = hashlib.sha256()
    d = os.path.join(repo, "sketchnu")
    for name in sorted(os.listdir(d)):
        if name.endswith(".py"):
            h.update(name.encode())
            with open(os.path.join(d, name), "rb") as f:
                h.update(hashlib.sha256(f.read()).digest())
    return h.hexdigest()[:20]


def pin_env():
    """Environment that must be in place before numba is imported. Returns True if a
    re-exec is needed to make PYTHONHASHSEED effective."""
    os.environ["NUMBA_THREADING_LAYER"] = "workqueue"
    os.environ.setdefault("NUMBA_NUM_THREADS", "1")
    os.environ["SKETCHNU_VERIF"] = "1"
    os.environ.setdefault("PYTHONWARNINGS", "ignore")
    want = os.environ.get("VERIF_HASHSEED", "0")
    if os.environ.get("PYTHONHASHSEED") != want:
        os.environ["PYTHONHASHSEED"] = want
        return True
    return False


class VClock:
    """Virtual clock: the only clock the code under test reads in simulation."""

    def __init__(self):
        self.now = 0.0
        self.sleeps = 0
        self.hook = None  # engine P installs a scheduler hook here

    def sleep(self, dt):
        self.sleeps += 1
        if self.hook is not None:
            self.hook(dt)
        else:
            self.now += float(dt)

    def reset(self):
        self.now = 0.0
        self.sleeps = 0


CLOCK = VClock()


def _sim_sleep(dt):
    CLOCK.sleep(dt)


class _NS:
    pass


class _ZipTime:
    """zipfile stamps members with time.localtime(time.time()); np.savez goes through it.
    In simulation the stamp comes from the virtual clock so that saved bytes are a pure
    function of the sketch."""

    @staticmethod
    def time():
        return 1577836800.0 + CLOCK.now

    @staticmethod
    def localtime(t=None):
        import time as _t

        return _t.gmtime(1577836800.0 + CLOCK.now if t is None else t)

    def __getattr__(self, name):
        import time as _t

        return getattr(_t, name)


def boot(quiet=True):
    """Import the tree under test with a source-keyed numba cache and install seams."""
    global _booted, SK, TREE_HASH
    if _booted:
        return SK
    import warnings

    warnings.simplefilter("ignore")
    TREE_HASH = tree_hash()
    cache_root = os.path.join(VERIF_DIR, ".cache")
    cache_dir = os.path.join(cache_root, "numba-" + TREE_HASH)
    os.makedirs(cache_dir, exist_ok=True)
    # prune old cache dirs (keep the 16 most recent)
    try:
        ds = [os.path.join(cache_root, d) for d in os.listdir(cache_root) if d.startswith("numba-")]
        ds.sort(key=lambda p: os.path.getmtime(p), reverse=True)
        for old in ds[16:]:
            if old != cache_dir:
                shutil.rmtree(old, ignore_errors=True)
        os.utime(cache_dir, None)
    except OSError:
        pass
    os.environ["NUMBA_CACHE_DIR"] = cache_dir
    if REPO not in sys.path:
        sys.path.insert(0, REPO)
    t0 = _real_time.time()
    import numba

    _orig_njit = numba.njit

    def njit_cached(*a, **k):
        # same source, same compiler; only the on-disk cache is switched on. The cache
        # directory is keyed by the hash of *all* sketchnu sources, so a change in any
        # file (including a callee in another module) yields a cold cache.
        if len(a) == 1 and callable(a[0]) and not k:
            return _orig_njit(cache=True)(a[0])
        k.setdefault("cache", True)
        return _orig_njit(*a, **k)

    numba.njit = njit_cached
    try:
        import sketchnu  # noqa
        import sketchnu.countmin as countmin
        import sketchnu.heavyhitters as heavyhitters
        import sketchnu.hyperloglog as hyperloglog
        import sketchnu.helpers as helpers
        import sketchnu.hashes as hashes
    finally:
        numba.njit = _orig_njit
    src = os.path.realpath(os.path.dirname(sketchnu.__file__))
    want = os.path.realpath(os.path.join(REPO, "sketchnu"))
    if src != want:
        raise RuntimeError(f"sketchnu imported from {src}, expected {want}")
    ns = _NS()
    ns.sketchnu = sketchnu
    ns.countmin = countmin
    ns.heavyhitters = heavyhitters
    ns.hyperloglog = hyperloglog
    ns.helpers = helpers
    ns.hashes = hashes
    ns.import_s = _real_time.time() - t0
    # time seams: module-level names, no source hook needed (off for the real anchors)
    if os.environ.get("DSIM_REAL") != "1":
        for mod in (countmin, heavyhitters, hyperloglog, helpers):
            mod.sleep = _sim_sleep
        import zipfile

        zipfile.time = _ZipTime()
    SK = ns
    _booted = True
    import gc

    gc.collect()
    gc.freeze()
    return ns


_seed_fn = None


def numba_seed(s):
    """Seed numba's per-thread MT19937 (the generator behind np.random.rand in _rand)."""
    global _seed_fn
    if _seed_fn is None:
        import numba
        import numpy as np

        @numba.njit(cache=True)
        def _seed(x):
            np.random.seed(x)

        _seed_fn = _seed
    _seed_fn(int(s) & 0xFFFFFFFF)
