"""Dictionary of constants harvested from the tree under test.

Thresholds at which code changes behaviour are usually written down in it: batch and
chunk sizes, block sizes, limits, sentinel strings, magic byte strings (also those
imported from the standard library into a module's namespace). The simulator uses them
the way dictionary-based fuzzers do: a share of runs sizes one natural dimension of the
workload (list length, n-gram windows, table cells, table bytes, shared-memory payload,
multiplicity, item value, key prefix) right at, one below and one above such a constant.
Nothing here depends on which constants exist; the unmodified tree yields e.g. 2048 (the
random batch), 255/65535 (counter maxima), 1023/15 (reserved ranges), "cms"/"hh"/"hll".
"""
import types

_cache = None


def _walk_code(code, ints, byts, strs, seen):
    if id(code) in seen:
        return
    seen.add(id(code))
    for c in code.co_consts:
        if isinstance(c, bool) or c is None:
            continue
        if isinstance(c, int):
            ints.add(c)
        elif isinstance(c, bytes):
            byts.add(c)
        elif isinstance(c, str):
            strs.add(c)
        elif isinstance(c, types.CodeType):
            _walk_code(c, ints, byts, strs, seen)
        elif isinstance(c, (tuple, frozenset)):
            for x in c:
                if isinstance(x, bool):
                    continue
                if isinstance(x, int):
                    ints.add(x)
                elif isinstance(x, bytes):
                    byts.add(x)
                elif isinstance(x, str):
                    strs.add(x)


def _defaults(fn, ints, byts, strs):
    vals = list(getattr(fn, "__defaults__", None) or ()) + list((getattr(fn, "__kwdefaults__", None) or {}).values())
    for x in vals:
        if isinstance(x, bool) or x is None:
            continue
        if isinstance(x, int):
            ints.add(x)
        elif isinstance(x, bytes):
            byts.add(x)
        elif isinstance(x, str):
            strs.add(x)


def harvest(SK):
    global _cache
    if _cache is not None:
        return _cache
    import numpy as np

    ints, byts, strs, seen = set(), set(), set(), set()
    mods = [SK.countmin, SK.heavyhitters, SK.hyperloglog, SK.helpers, SK.hashes]
    for mod in mods:
        for name, val in list(vars(mod).items()):
            if name.startswith("__"):
                continue
            if isinstance(val, bool):
                continue
            if isinstance(val, (int, np.integer)):
                ints.add(int(val))
            elif isinstance(val, bytes):
                byts.add(val)
            elif isinstance(val, str):
                strs.add(val)
            elif isinstance(val, (tuple, list, frozenset, set)) and len(val) <= 32:
                for x in val:
                    if isinstance(x, (int, np.integer)) and not isinstance(x, bool):
                        ints.add(int(x))
                    elif isinstance(x, bytes):
                        byts.add(x)
                    elif isinstance(x, str):
                        strs.add(x)
            fn = getattr(val, "py_func", val)
            code = getattr(fn, "__code__", None)
            if code is not None and getattr(fn, "__module__", "").startswith("sketchnu"):
                _walk_code(code, ints, byts, strs, seen)
                _defaults(fn, ints, byts, strs)
            if isinstance(val, type) and getattr(val, "__module__", "").startswith("sketchnu"):
                for mname, m in vars(val).items():
                    f = getattr(m, "__func__", m)
                    code = getattr(f, "__code__", None)
                    if code is not None:
                        _walk_code(code, ints, byts, strs, seen)
                        _defaults(f, ints, byts, strs)
    thr = sorted(v for v in ints if 6 <= v <= (1 << 26))
    small = sorted(v for v in ints if 2 <= v < 6)
    bl = sorted(b for b in byts if 0 < len(b) <= 64)
    sl = sorted(s for s in strs if 0 < len(s) <= 24 and "\n" not in s and " " not in s.strip() and s.isprintable())
    big = sorted(v for v in ints if (1 << 26) < v <= (1 << 40))
    _cache = {"ints": thr, "small_ints": small, "big_ints": big, "bytes": bl, "strs": sl}
    return _cache
