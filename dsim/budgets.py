"""Runs and wall caps per property and tier (calibrated on the 16-core sandbox: quick is
about 20 s of simulation after the import, thorough about 20 min)."""


def _b(q, t=None):
    return {"quick": {"runs": q, "wall": 240}, "thorough": {"runs": t or q * 60, "wall": 2400}}


BUDGETS = {
    "C01": _b(5000),
    "C02": _b(12000),
    "C03": _b(10000),
    "C04": _b(10000),
    "C05": _b(12000),
    "C06": _b(8000),
    "C09": _b(8000),
    "C10": _b(8000),
    "C12": _b(7000),
    "C13": _b(8000),
    "C15": _b(20000),
    "C16": _b(12000),
    "C18": _b(8000),
    "C08": _b(3500),
    "C19": _b(7000),
}
