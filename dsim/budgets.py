"""Runs and wall caps per property and tier (calibrated on the 16-core sandbox: quick is
about 20 s of simulation after the import, thorough about 20 min)."""


def _b(q, t=None):
    return {"quick": {"runs": q, "wall": 240}, "thorough": {"runs": t or q * 60, "wall": 2400}}


BUDGETS = {
    "C01": _b(5000),
    "C02": _b(12000),
    "C03": _b(10000),
    "C04": _b(10000),
    "C05": _b(12000),
    "C06": _b(8000),
    "C09": _b(8000),
    "C10": _b(8000),
    "C12": _b(7000),
    "C13": _b(8000),
    "C15": _b(20000),
    "C16": _b(12000),
    "C18": _b(8000),
    "C08": _b(3500),
    "C19": _b(7000),
}


# Reach probes / fired counters that must be non-zero when a batch ran at least half of
# its tier budget: a probe stuck at zero means the workload or fault mix lost its reach,
# which is a harness error (exit 2), never a silent pass.
REQUIRED = {
    "C01": ["collision_free_row_exact", "key_collides_in_every_row", "truth_at_or_past_ceiling", "live_query_events",
            "restart_to_older_snapshot", "#deliver", "#crash_restart", "#dup", "#drop"],
    "C02": ["final_convergence_checked", "rank_ge_33", "register_at_maximum_rank", "#deliver", "#dup", "#drop", "#partition",
            "#crash_restart"],
    "C03": ["query_answers_checked", "nul_aliased_identities_share_a_cell", "pool_has_key_longer_than_max_key_len", "#deliver",
            "#crash_restart"],
    "C04": ["dominating_key_checked", "dominating_key_with_collisions", "majority_key_checked", "#deliver", "#crash_restart"],
    "C05": ["add_cut_short_by_ceiling", "conservative_update_skipped_a_row", "log_add_in_probabilistic_range",
            "log_add_in_reserved_range", "#deliver"],
    "C06": ["batch_refilled", "decode_steps_checked", "key_beyond_reserved_range", "law_above", "law_below", "law_at_maximum",
            "law_in_reserved_range", "probabilistic_decisions_mirrored"],
    "C08": ["filler_blocked_on_full_queue", "generator_items", "odd_sketch_carried_in_merge_round", "one_worker_took_every_item",
            "worker_got_only_the_poison_pill", "#line_preemptions_in_helpers"],
    "C09": ["merge_cells_in_log_range", "merge_saturated_cell", "merges_checked"],
    "C10": ["events_after_restart_compared", "foreign_loader_rejected", "restart_to_older_snapshot", "restarts_checked",
            "round_trips_checked", "shared_loads_checked_through_a_peer"],
    "C12": ["entry_add", "entry_add_ngram", "entry_update_dict", "entry_update_list", "entry_update_ngram", "ngram_len_eq_n",
            "ngram_len_gt_n", "ngram_len_lt_n", "key_lifted_to_just_below_ceiling", "multiplicity_straddles_ceiling"],
    "C13": ["queries_checked", "repeat_query_changed_threshold", "repeat_query_same_threshold", "#deliver", "#attach"],
    "C15": ["agreeing_merges_checked", "refusals_checked:depth", "refusals_checked:max_count", "refusals_checked:mkl",
            "refusals_checked:num_reserved", "refusals_checked:p", "refusals_checked:seed", "refusals_checked:width",
            "refusals_checked:family"],
    "C16": ["events_routed_through_a_view", "events_with_views_compared", "hh_key_area_not_multiple_of_4", "owner_drops_checked",
            "owner_drops_checked_owner_first", "unaligned_bookkeeping_offset", "view_drops_checked", "shared_memory_view_drops_checked"],
    "C18": ["ctor_accepted", "ctor_raised_ValueError", "lone_hh_key_checked", "op_on_saturated_key"],
    "C19": ["callback_raised", "worker_died", "parallel_add_raised_after_death", "kills_issued", "filler_blocked_on_full_queue",
            "#line_preemptions_in_helpers"],
}
