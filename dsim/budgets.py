"""Runs and wall caps per property and tier (calibrated on the 16-core sandbox)."""
BUDGETS = {
}
