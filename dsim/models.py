"""Reference models used as oracles. None of this imports sketchnu.

* FastHash64 (published algorithm, little-endian) and its inverse on 8-byte inputs
* HyperLogLog reference registers (index = low p bits, rank = 1 + leading zeros of the rest)
* log-counter reference (decode table, counter walk consuming an explicit draw list)
"""
import math

M64 = (1 << 64) - 1
FH_M = 0x880355F21E6D1965
FH_K = 0x2127599BF4325C37


def _mix(h):
    h ^= h >> 23
    h = (h * FH_K) & M64
    h ^= h >> 47
    return h


def fasthash64(key: bytes, seed: int) -> int:
    n = len(key)
    h = (seed ^ (n * FH_M)) & M64
    nb = n // 8
    for i in range(nb):
        v = int.from_bytes(key[8 * i : 8 * i + 8], "little")
        h ^= _mix(v)
        h = (h * FH_M) & M64
    tail = key[nb * 8 :]
    if tail:
        v = int.from_bytes(tail, "little")
        h ^= _mix(v)
        h = (h * FH_M) & M64
    return _mix(h)


def _inv_xorshift(y, s):
    x = y
    t = y >> s
    while t:
        x ^= t
        t >>= s
    return x


_INV_K = pow(FH_K, -1, 1 << 64)
_INV_M = pow(FH_M, -1, 1 << 64)


def _unmix(h):
    h = _inv_xorshift(h, 47)
    h = (h * _INV_K) & M64
    h = _inv_xorshift(h, 23)
    return h


def craft_key8(target_hash: int, seed: int) -> bytes:
    """The unique 8-byte key whose FastHash64 under `seed` equals target_hash."""
    h = _unmix(target_hash & M64)  # value before the final mix
    h = (h * _INV_M) & M64  # before the multiplication
    h0 = (seed ^ (8 * FH_M)) & M64
    v = _unmix(h ^ h0)
    return v.to_bytes(8, "little")


def hll_index_rank(key: bytes, p: int, seed: int):
    h = fasthash64(key, seed)
    idx = h & ((1 << p) - 1)
    rest = h >> p
    bits = 64 - p
    rank = bits - rest.bit_length() + 1
    return idx, rank


def hll_registers(keys, p: int, seed: int, cache=None) -> bytearray:
    regs = bytearray(1 << p)
    for k in keys:
        if cache is not None:
            ir = cache.get(k)
            if ir is None:
                ir = hll_index_rank(k, p, seed)
                cache[k] = ir
        else:
            ir = hll_index_rank(k, p, seed)
        if regs[ir[0]] < ir[1]:
            regs[ir[0]] = ir[1]
    return regs


def ngram_windows(key: bytes, n: int):
    """Documented expansion of add_ngram: every length-n window, or the key itself."""
    if len(key) <= n:
        return [key]
    return [key[i : i + n] for i in range(len(key) - n + 1)]


class LogRef:
    """Reference for the log counters of CountMinLog8/16, from the property statement:
    exact below num_reserved; at counter c >= num_reserved a unit add advances with
    probability base^-(c-num_reserved); decode(c) = (base^(c-nr) - 1)/(base - 1) + nr."""

    def __init__(self, base: float, num_reserved: int, maxval: int):
        self.base = float(base)
        self.nr = int(num_reserved)
        self.maxval = int(maxval)
        self._dec = {}
        # at c == num_reserved the advance probability is base^0 = 1: whether a draw is spent
        # on that certain step is not part of the law (the pinned tree spends one)
        self.draw_at_nr = True

    def decode(self, c: int) -> float:
        d = self._dec.get(c)
        if d is None:
            if c <= self.nr:
                d = float(c)
            else:
                d = (self.base ** float(c - self.nr) - 1.0) / (self.base - 1.0) + float(self.nr)
            self._dec[c] = d
        return d

    def prob(self, c: int) -> float:
        """advance probability of a unit add at counter c (c < maxval)"""
        if c < self.nr:
            return 1.0
        return self.base ** (-float(c - self.nr))

    def walk(self, c: int, value: int, draws, ptr: int):
        """Unit-add walk. `draws` is the batch (the tree's batch length; 2048 on the pinned tree); ptr is the
        number of draws already consumed from it. Returns (counter, ptr, used, ambiguous,
        needs_refill). Stops (needs_refill=True) if the batch is exhausted before the
        walk ends so the caller can install the refilled batch."""
        used = 0
        ambiguous = False
        i = 0
        while i < value:
            if c >= self.maxval:
                break
            if c < self.nr or (c == self.nr and not self.draw_at_nr):
                c += 1
                i += 1
                continue
            if ptr >= len(draws):
                return c, ptr, used, ambiguous, value - i
            u = draws[ptr]
            ptr += 1
            used += 1
            pr = self.prob(c)
            if abs(u - pr) <= 1e-9 * pr:
                ambiguous = True
            if u < pr:
                c += 1
            i += 1
        return c, ptr, used, ambiguous, 0

    def nearest_ok(self, cell: int, v: float) -> bool:
        """Is `cell` a counter whose decoded value is nearest to v (ties and log
        rounding tolerated)?"""
        # bracket by bisection on the monotone decode
        lo, hi = 0, self.maxval
        while hi - lo > 1:
            mid = (lo + hi) // 2
            if self.decode(mid) <= v:
                lo = mid
            else:
                hi = mid
        best = min(abs(self.decode(lo) - v), abs(self.decode(hi) - v))
        return abs(self.decode(cell) - v) <= best * (1 + 1e-9) + 1e-9 * max(v, 1.0)


def find_base_ref(max_count: int, num_reserved: int, maxval: int):
    """Independent solve of (base^K - 1)/(base - 1) = max_count - num_reserved by
    bisection; returns None when no root > 1 + 1e-9 exists."""
    K = maxval - num_reserved
    M = float(max_count) - float(num_reserved)
    if K <= 1 or M <= K:
        return None

    def g(b):
        # sum_{i<K} b^i - M, computed stably
        try:
            return (math.exp(K * math.log(b)) - 1.0) / (b - 1.0) - M
        except OverflowError:
            return float("inf")

    lo, hi = 1.0 + 1e-12, 2.0
    while g(hi) < 0:
        hi *= 2
        if hi > 1e300:
            return None
    if g(lo) > 0:
        return None
    for _ in range(200):
        mid = (lo + hi) / 2
        if g(mid) < 0:
            lo = mid
        else:
            hi = mid
    return (lo + hi) / 2


def markov_counter_distribution(base, nr, maxval, n_adds):
    """Exact distribution of a log counter after n unit adds starting from 0."""
    probs = [1.0 if c < nr else base ** (-float(c - nr)) for c in range(maxval)] + [0.0]
    dist = [0.0] * (maxval + 1)
    dist[0] = 1.0
    hi = 0
    for _ in range(n_adds):
        new = [0.0] * (maxval + 1)
        for c in range(hi + 1):
            m = dist[c]
            if m == 0.0:
                continue
            p = probs[c]
            new[c] += m * (1.0 - p)
            if c < maxval:
                new[c + 1] += m * p
        hi = min(hi + 1, maxval)
        dist = new
    return dist


def _gammaincc(a, x):
    """regularised upper incomplete gamma Q(a, x) (Numerical Recipes gser/gcf)"""
    if x <= 0:
        return 1.0
    gln = math.lgamma(a)
    if x < a + 1.0:
        ap, s, d = a, 1.0 / a, 1.0 / a
        for _ in range(10000):
            ap += 1.0
            d *= x / ap
            s += d
            if abs(d) < abs(s) * 1e-16:
                break
        return max(0.0, 1.0 - s * math.exp(-x + a * math.log(x) - gln))
    tiny = 1e-300
    b = x + 1.0 - a
    c = 1.0 / tiny
    d = 1.0 / b
    h = d
    for i in range(1, 10000):
        an = -i * (i - a)
        b += 2.0
        d = an * d + b
        if abs(d) < tiny:
            d = tiny
        c = b + an / c
        if abs(c) < tiny:
            c = tiny
        d = 1.0 / d
        de = d * c
        h *= de
        if abs(de - 1.0) < 1e-16:
            break
    return math.exp(-x + a * math.log(x) - gln) * h


def chi2_sf(x, df):
    return _gammaincc(df / 2.0, x / 2.0)


def chi_square_vs_exact(hist, exact, min_expected=8.0):
    """Pearson chi-square of an observed histogram {value: count} against exact
    probabilities; bins with small expectation are pooled. Returns (stat, df, p)."""
    n = sum(hist.values())
    bins = []
    acc_e, acc_o = 0.0, 0
    for c, pc in enumerate(exact):
        acc_e += pc * n
        acc_o += hist.get(c, 0)
        if acc_e >= min_expected:
            bins.append((acc_o, acc_e))
            acc_e, acc_o = 0.0, 0
    if bins and (acc_e > 0 or acc_o > 0):
        o, e = bins[-1]
        bins[-1] = (o + acc_o, e + acc_e)
    if len(bins) < 2:
        return 0.0, 0, 1.0
    stat = sum((o - e) ** 2 / e for o, e in bins)
    df = len(bins) - 1
    return stat, df, chi2_sf(stat, df)
