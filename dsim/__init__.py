"""Deterministic simulation with fault injection for mhendrey/sketchnu (see /verif/DESIGN.md)."""
