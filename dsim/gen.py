"""Seeded generation for engine W: per-run configuration (swarm), adversarial key pools
and the next event given the world's state. Every choice comes from the run PRNG."""
from .core import hexk, unhex
from .models import craft_key8

U32MAX = (1 << 32) - 1
LOG = ("log16", "log8")
CMS = ("linear", "log16", "log8")


def wchoice(rng, weights):
    """weighted choice over a dict with deterministic (insertion) order"""
    items = [(k, w) for k, w in weights.items() if w > 0]
    tot = sum(w for _, w in items)
    x = rng.random() * tot
    acc = 0.0
    for k, w in items:
        acc += w
        if x < acc:
            return k
    return items[-1][0]


# ----------------------------------------------------------------------------------
# key pools
# ----------------------------------------------------------------------------------
def rand_key(rng, n):
    style = rng.randrange(4)
    if style == 0:
        return bytes(rng.randrange(256) for _ in range(n))
    if style == 1:
        return bytes(rng.choice((0, 0x7F, 0x80, 0xFF)) for _ in range(n))
    if style == 2:
        return bytes(rng.randrange(97, 101) for _ in range(n))
    return bytes([rng.randrange(256)]) * n


def base_pool(rng, mkl=None):
    """Adversarial pool: empty, all-NUL of several lengths, NUL-suffixed pairs, bytes
    >= 0x80, block/tail boundary lengths of FastHash, long keys with shared prefixes."""
    cands = [b"", b"\x00", b"\x00\x00", b"\x00" * 4, b"\x00" * 8, b"a", b"ab", b"ab\x00", b"ab\x00\x00",
             b"\xff\x80", b"\x80", b"abc", b"b"]
    stem = rand_key(rng, 20)
    for n in (7, 8, 9, 15, 16, 17):
        cands.append(stem[:n])
    cands.append(rand_key(rng, 64))
    cands.append(stem + rand_key(rng, 44))
    k = rand_key(rng, rng.randrange(1, 6))
    cands += [k, k + b"\x00"]
    if mkl is not None:
        s = rand_key(rng, mkl + 2)
        s = bytes(x or 1 for x in s)  # no NULs so that the three lengths are distinct identities
        for n in (mkl - 1, mkl, mkl + 1, mkl + 2):
            if n >= 0:
                cands.append(s[:n])
        if mkl >= 2:
            cands += [s[: mkl - 1] + b"\x00", b"\x00" * mkl, b"\x00" * (mkl - 1)]
    for _ in range(3):
        cands.append(rand_key(rng, rng.randrange(0, 12)))
    for n in (31, 32, 33, 63):
        cands.append(stem + rand_key(rng, n - 20) if n > 20 else stem[:n])
    if rng.random() < 0.25:
        # byte/str constants of the tree under test, alone and as prefix/suffix of a key
        cs = _consts()
        toks = [b for b in cs["bytes"]] + [s.encode() for s in cs["strs"]]
        if toks:
            t = rng.choice(toks)
            if cs["bytes"] and rng.random() < 0.6:
                t = rng.choice(cs["bytes"])
            extra = [t, t + rand_key(rng, rng.randrange(1, 8)), rand_key(rng, rng.randrange(1, 5)) + t]
            cands = extra + cands
            if rng.random() < 0.7:
                cands = [extra[rng.randrange(3)]] * 4 + cands
    size = rng.randrange(3, 13)
    pool = []
    # NUL-aliased pairs are kept together with some probability
    if rng.random() < 0.5:
        pool += [b"ab", b"ab\x00"] if rng.random() < 0.5 else [k, k + b"\x00"]
    if rng.random() < 0.35:
        pool.append(rng.choice([b"\x00" * 4, b"\x00", b"", b"\x00" * 2]))
    while len(pool) < size:
        c = rng.choice(cands)
        if c not in pool:
            pool.append(c)
    rng.shuffle(pool)
    return pool


def hll_pool(rng, p, seed):
    pool = base_pool(rng)
    bits = 64 - p
    # crafted 8-byte keys: chosen register index and chosen rank (deep nlz branches)
    n_craft = rng.randrange(2, 8)
    idxs = [rng.randrange(1 << p) for _ in range(3)]
    for _ in range(n_craft):
        rank = rng.choice([1, 2, 3, bits - 31, bits - 32, bits - 33, bits, bits + 1, rng.randrange(1, bits + 2)])
        rank = max(1, min(bits + 1, rank))
        idx = rng.choice(idxs)
        if rank == bits + 1:
            rest = 0
        else:
            top = 1 << (bits - rank)
            # round 11 (S110): below the leading one, not only random bits but the extreme
            # patterns (all ones, all ones but the last, all zeros, a lone low bit) at which a
            # leading-zero count done in floating point or by comparison rounds the wrong way
            style = rng.randrange(8)
            low = {0: top - 1, 1: max(0, top - 2), 2: 0, 3: min(1, top - 1)}.get(style)
            rest = top | (rng.randrange(top) if low is None else low)
        h = (rest << p) | idx
        pool.append(craft_key8(h, seed))
    # some bulk so that several registers are in play
    for _ in range(rng.randrange(0, 12)):
        pool.append(rand_key(rng, rng.randrange(0, 20)))
    if rng.random() < 0.3:
        # lengths around the one-byte boundary and a long key (arbitrary byte strings are in scope)
        pool.append(rand_key(rng, rng.choice([255, 256, 257, 1000])))
    out = []
    for k in pool:
        if k not in out:
            out.append(k)
    return out


# ----------------------------------------------------------------------------------
# configuration (swarm)
# ----------------------------------------------------------------------------------
LOG8_GRID = [(300, 0), (300, 15), (500, 3), (1000, 15), (2000, 100), (5000, 15), (5000, 200), (70000, 15),
             (U32MAX, 15), (1 << 40, 15)]
LOG16_GRID = [(70000, 1023), (70000, 60000), (100000, 1023), (10 ** 6, 1023), (10 ** 6, 65000), (U32MAX, 1023),
              (U32MAX, 0), (1 << 40, 1023), (70000, 5)]


def draw_log_params(rng, fam, small_bias=0.7):
    grid = LOG8_GRID if fam == "log8" else LOG16_GRID
    if rng.random() < small_bias:
        return grid[rng.randrange(0, 6 if fam == "log8" else 5)]
    return rng.choice(grid)


def draw_width(rng, wmax):
    r = rng.random()
    if r < 0.5:
        return rng.randrange(1, 4)
    if r < 0.8:
        return rng.randrange(1, min(wmax, 8) + 1)
    return rng.randrange(1, wmax + 1)


def draw_seed64(rng):
    return rng.choice([0, 0, 1, U32MAX, 1 << 32, 1 << 63, (1 << 64) - 1, rng.getrandbits(64), rng.getrandbits(31)])


def _roundoff_widths(limit=128):
    """Widths w for which the default threshold fraction fl(1/w) is below 1/w far enough
    that floor(fl(1/w) * (k*w)) < k for some small k: at n_added = k*w the documented
    default threshold floor(phi * n_added) sits one below the 'intended' k. Any
    reformulation of that product (integer division, phi recomputed elsewhere) changes
    query() answers exactly there."""
    out = []
    for w in range(2, limit + 1):
        if any(int((1.0 / w) * (k * w)) != k for k in range(1, 33)):
            out.append(w)
    return out


ROUNDOFF_WIDTHS = _roundoff_widths()


def draw_config(rng, family, wmax=16, dmax=8, nodes_max=4, events=(20, 80), **over):
    cfg = {"family": family}
    if family in ("linear", "log16", "log8", "hh"):
        cfg["width"] = draw_width(rng, wmax)
        cfg["depth"] = rng.randrange(1, (4 if family == "hh" else dmax) + 1)
    if family in LOG:
        cfg["max_count"], cfg["num_reserved"] = draw_log_params(rng, family)
    if family == "hh":
        cfg["mkl"] = rng.choice([1, 2, 3, 4, 4, 5, 8, 16, rng.randrange(1, 17)])
        w_ = cfg["width"]
        # explicit thresholds incl. values hugging the default 1/width from both sides (the
        # docstring recommends phi just above 1/width)
        cfg["phi"] = rng.choice([None, None, 0.5, 0.01, 0.25, min(0.999, (1.0 / w_) * (1 + 1e-6)) if w_ > 1 else 0.999999,
                                 (1.0 / w_) * (1 - 1e-7), (1.0 / w_) + 1e-9 if w_ > 1 else 0.9999999,
                                 min(0.999, (1.0 / w_) * 1.001) if w_ > 1 else 0.5])
        if cfg["phi"] is None and cfg["width"] == 1 and over.get("avoid_phi1"):
            cfg["phi"] = 0.5
        if rng.random() < 0.05:
            # default phi at a width where phi * n_added rounds below an exact multiple
            cfg["width"], cfg["phi"], cfg["topup"] = rng.choice(ROUNDOFF_WIDTHS), None, 0.3
            cfg["depth"] = min(cfg["depth"], 2)
    if family == "hll":
        cfg["p"] = rng.choice([7, 7, 8, 9, 10, 12, 14, 16, rng.randrange(7, 17)])
        cfg["seed"] = draw_seed64(rng)
    cfg["n_nodes"] = rng.randrange(1, nodes_max + 1)
    cfg["n_events"] = rng.randrange(events[0], events[1] + 1)
    if rng.random() < 0.04:
        # a few long histories: defects that need the N-th call, or state that only builds up
        cfg["n_events"] *= rng.choice([4, 8])
    cfg["factory"] = rng.random() < 0.3 and family in CMS
    cfg["observe"] = "clone" if rng.random() < 0.7 else "live"
    if family == "hll":
        pool = hll_pool(rng, cfg["p"], cfg["seed"])
    else:
        pool = base_pool(rng, cfg.get("mkl"))
    cfg["pool"] = [hexk(k) for k in pool]
    if over.get("thresholds", True):
        plan_threshold(rng, cfg, shared_ok=bool(over.get("thr_shared")), run_index=over.get("run_index"),
                       only_dims=over.get("thr_dims"), every=over.get("thr_every"))
    return cfg


def _consts():
    from . import boot
    from .consts import harvest

    return harvest(boot.SK)


def _fill_keys(rng, cfg, thr):
    """a big table stays almost empty under a dozen pool keys: two long random keys whose
    n-gram windows touch thousands of counters per row"""
    ks = [hexk(bytes(rng.getrandbits(8) for _ in range(rng.choice([1500, 3000])))) for _ in range(2)]
    thr["fill_keys"] = ks
    cfg["pool"] = cfg["pool"] + ks


THRESHOLD_EVERY = 12  # every 12th run of a batch is a threshold run


def plan_threshold(rng, cfg, shared_ok=False, run_index=None, only_dims=None, every=None):
    """Constant-guided swarm: every THRESHOLD_EVERY-th run sizes one dimension of its
    workload around a constant harvested from the tree under test (see consts.py). The
    (constant, dimension) pairs are walked round-robin over the batch, so that every pair
    is exercised several times per batch whatever the seed."""
    every = every or THRESHOLD_EVERY
    if run_index is None or run_index % every != min(7, every - 1):
        return cfg
    cs = _consts()["ints"]
    if not cs:
        return cfg
    fam = cfg["family"]
    dims = ["mult", "list_len", "ngram_windows", "key_len"]
    if fam != "hll":
        dims += ["cells"]
    if fam in CMS:
        dims += ["table_bytes"]
    if shared_ok:
        dims += ["shm_multiple"]
    if only_dims:
        dims = [d for d in dims if d in only_dims]
    limits = {"mult": 1 << 26, "list_len": 1 << 17, "ngram_windows": (1 << 17) if fam == "hll" else 2048, "key_len": 4096,
              "cells": (1 << 12) if fam == "hh" else (1 << 21), "table_bytes": 1 << 25, "shm_multiple": 1 << 16}
    pairs = [(C, d) for d in dims for C in cs if C <= limits[d]]
    if not pairs:
        return cfg
    C, dim = pairs[(run_index // every) % len(pairs)]
    itemsize = {"linear": 4, "log16": 2, "log8": 1}.get(fam, 1)
    thr = {"dim": dim, "C": C}
    if dim == "list_len" and C <= (1 << 17):
        thr["lens"] = [max(0, C + d) for d in (-1, 0, 1, 2)] + [2 * C + 1]
    elif dim == "ngram_windows" and C <= (1 << 17):
        n = rng.randrange(1, 9)
        thr["n"] = n
        long_keys = [rand_key(rng, C + n - 1 + d) if rng.random() < 0.8 else bytes(rng.randrange(256) for _ in range(C + n - 1 + d))
                     for d in (0, 1, -1)]
        thr["keys"] = [hexk(bytes(rng.getrandbits(8) for _ in range(len(k)))) for k in long_keys[:2]] + [hexk(long_keys[2])]
        cfg["pool"] = cfg["pool"] + thr["keys"]
        cfg["n_events"] = min(cfg["n_events"], 25)
    elif dim == "key_len" and C <= 4096:
        thr["keys"] = [hexk(rand_key(rng, max(0, C + d))) for d in (-1, 0, 1)]
        cfg["pool"] = cfg["pool"] + thr["keys"]
    elif dim == "cells" and C <= ((1 << 12) if fam == "hh" else (1 << 21)) and fam != "hll":
        d = rng.randrange(1, (4 if fam == "hh" else 8) + 1)
        w = max(1, -(-C // d) + rng.choice([0, 0, 1, 2, 3]))
        cfg["width"], cfg["depth"] = w, d
        if fam == "hh":
            cfg["mkl"] = min(cfg["mkl"], 8)
        if w * d > 4096:
            cfg["n_events"] = min(cfg["n_events"], 16)
            cfg["n_nodes"] = 2
            _fill_keys(rng, cfg, thr)
    elif dim == "table_bytes" and C <= (1 << 25) and fam in CMS:
        base_cells = C // itemsize
        # just past the constant, and well past it (a remainder large enough to hold data)
        cells = base_cells + rng.choice([1, 1000, base_cells // 7 + 1, base_cells // 3 + 1, base_cells // 2 + 3])
        d = rng.randrange(1, 5)
        cfg["width"], cfg["depth"] = max(1, -(-cells // d)), d
        if cells > 4096:
            cfg["n_events"] = min(cfg["n_events"], 12)
            cfg["n_nodes"] = 2
            _fill_keys(rng, cfg, thr)
    elif dim == "shm_multiple" and C <= (1 << 16) and fam != "hll":
        # shape whose shared-memory payload (tables + 16 bookkeeping bytes) is an exact multiple of C
        found = None
        per = (cfg.get("mkl", 0) + 5) if fam == "hh" else itemsize
        for k in range(1, 40):
            tot = k * C - 16
            if tot <= 0:
                continue
            mkls = range(1, 33) if fam == "hh" else [None]
            opts = []
            for m in mkls:
                unit = (m + 5) if fam == "hh" else itemsize
                if tot % unit:
                    continue
                cells = tot // unit
                for d in range(1, (4 if fam == "hh" else 8) + 1):
                    if cells % d == 0 and cells // d <= 4096:
                        opts.append((cells // d, d, m))
            if opts:
                found = rng.choice(opts)
                break
        if found:
            cfg["width"], cfg["depth"] = found[0], found[1]
            if fam == "hh":
                cfg["mkl"] = found[2]
            cfg["n_events"] = min(cfg["n_events"], 25)
        else:
            thr["dim"] = "mult"
    else:
        thr["dim"] = "mult"
    cfg["thr"] = thr
    return cfg


MULT_CLASSES = {
    # name -> drawer
    "one": lambda r: 1,
    "small": lambda r: r.randrange(1, 6),
    "mid": lambda r: r.randrange(6, 10 ** 4 + 1),
    "zero": lambda r: 0,
    "big": lambda r: r.randrange(10 ** 4, 2 * 10 ** 5),
    # powers of two and their neighbours: the values at which narrow integer types,
    # masks and off-by-one comparisons change behaviour
    "pow2": lambda r: max(0, (1 << r.randrange(1, 41)) + r.choice([-1, 0, 0, 1])),
    "pow2s": lambda r: max(0, (1 << r.randrange(1, 14)) + r.choice([-1, 0, 0, 1])),
    "ceil": lambda r: U32MAX + r.randrange(-3, 3),
    "half": lambda r: (1 << 31) + r.randrange(-2, 3),
    "huge": lambda r: r.choice([1 << 32, (1 << 32) + 1, 1 << 40, r.randrange(1 << 32, 1 << 40)]),
}


def draw_mult(rng, classes, thr=None):
    if thr is not None and thr.get("dim") == "mult" and rng.random() < 0.3:
        return max(0, thr["C"] + rng.choice([-1, 0, 1]))
    name = wchoice(rng, classes)
    return MULT_CLASSES[name](rng)


# ----------------------------------------------------------------------------------
# event generation
# ----------------------------------------------------------------------------------
class GenState:
    def __init__(self):
        self.next_msg = 0
        self.groups = None  # partition: list of sets of node ids, or None
        self.last = None  # last event kind, for biased fault placement


def _pick_key(rng, cfg):
    return rng.choice(cfg["pool"])


def _via(rng, world, node_i):
    n = world.nodes[node_i]
    if n.views and rng.random() < 0.6:
        return rng.randrange(1, len(n.views) + 1)
    return 0


def _draw_fields(rng, world, ev):
    if ev["op"] in ("add", "update_dict") and rng.random() < 0.12:
        ev["vt"] = rng.choice(["int64", "uint64", "uint32", "int32"])
    if ev["op"] == "update_dict" and rng.random() < 0.3:
        ev["as_counter"] = True
    if ev["op"] == "update_list" and rng.random() < 0.15:
        ev["as_tuple"] = True
    if world.fam in LOG:
        ev["ds"] = rng.getrandbits(31)
        # buggify: most runs meet a refill; pointer near the end of the batch
        r = rng.random()
        vmax = max([ev.get("v", 1) or 1] + [it[1] for it in ev.get("items", [])] + [len(ev.get("keys", []))])
        if r < 0.25:
            ev["ptr"] = rng.randrange(2040, 2049)
            if vmax > 9 and rng.random() < 0.5:
                # the batch runs out in the middle of this call, not at its first draw
                ev["ptr"] = 2048 - rng.randrange(1, min(vmax, 2000))
        elif r < 0.35:
            ev["ptr"] = rng.randrange(0, 2049)
        else:
            ev["ptr"] = 0
    return ev


def _ngram_n(rng, L):
    """n in 1..L+2; for very long keys only small n or n close to L (the oracle walks every
    window in pure Python: total window bytes stay bounded)"""
    if L <= 256:
        return rng.randrange(1, L + 3)
    return rng.choice([rng.randrange(1, 9), L - 1, L, L + 1, L + 2])


def gen_workload(rng, world, mult, node=None):
    cfg = world.cfg
    i = rng.randrange(len(world.nodes)) if node is None else node
    kind = wchoice(rng, cfg.get("entry_weights", {"add": 5, "update_list": 2, "update_dict": 2, "add_ngram": 2,
                                                   "update_ngram": 1}))
    ev = {"op": kind, "node": i, "via": _via(rng, world, i)}
    thr = cfg.get("thr")
    if thr is not None and thr["dim"] == "list_len" and "lens" in thr and rng.random() < 0.25:
        kind = ev["op"] = "update_list"
        L = rng.choice(thr["lens"])
        pool = cfg["pool"]
        ev["keys"] = rng.choices(pool, k=L)
        if rng.random() < 0.5 and L:
            ev["keys"][-1] = pool[rng.randrange(len(pool))]
        return _draw_fields(rng, world, ev)
    if thr is not None and "fill_keys" in thr and rng.random() < 0.35:
        ev["op"] = "add_ngram"
        ev["key"] = rng.choice(thr["fill_keys"])
        ev["n"] = rng.choice([3, 4, 5])
        return _draw_fields(rng, world, ev)
    if thr is not None and thr["dim"] == "ngram_windows" and "keys" in thr and rng.random() < 0.3:
        ev["op"] = "add_ngram"
        ev["key"] = rng.choice(thr["keys"])
        ev["n"] = thr["n"]
        return _draw_fields(rng, world, ev)
    if world.fam in LOG and thr is not None and thr["dim"] == "mult" and thr["C"] > 2 * 10 ** 5:
        thr = None
    if kind == "add":
        ev["key"] = _pick_key(rng, cfg)
        if rng.random() < 0.85:
            ev["v"] = draw_mult(rng, mult, thr)
        if world.fam in ("linear", "hh") and rng.random() < cfg.get("land", 0.06) and any(c in mult for c in ("ceil", "half", "huge")):
            # round 11 (S106): land the key's estimate exactly on (or next to) a power of two at
            # which a narrower integer type would change behaviour; save/restart events that
            # follow then carry a table whose maximum sits on that boundary
            nd = world.nodes[i]
            sk = nd.primary
            if sk is not None:
                try:
                    k = unhex(ev["key"])
                    est = int(sk.query(k)) if world.fam == "linear" else int(sk[world.ident(k)])
                except Exception:
                    est = None
                if est is not None:
                    # only in modes whose multiplicities already reach the ceiling: the others
                    # keep the total mass below 2^32, as their statements assume, and merges
                    # between replicas double whatever mass a landing puts in
                    target = (1 << rng.choice([8, 16, 16, 24, 31])) + rng.choice([-1, 0, 0, 0, 1])
                    if target > est:
                        ev["v"] = target - est
                        ev["landing"] = True
        if world.fam == "hh" and rng.random() < cfg.get("topup", 0.04):
            # top n_added up to an exact multiple of 1/phi: floor(phi * n_added), the
            # default query threshold, is then at (or a rounding error below) an integer
            nd = world.nodes[i]
            sk = nd.primary
            if sk is not None:
                period = int(cfg["width"]) if cfg.get("phi") is None else max(1, int(round(1.0 / cfg["phi"])))
                ev["v"] = period - int(sk.n_added()) % period + period * rng.choice([0, 0, 1])
    elif kind == "update_list":
        ev["keys"] = [_pick_key(rng, cfg) for _ in range(rng.randrange(0, 7))]
    elif kind == "update_dict":
        n = rng.randrange(0, 5)
        seen, items = set(), []
        for _ in range(n):
            k = _pick_key(rng, cfg)
            if k not in seen:
                seen.add(k)
                items.append([k, draw_mult(rng, mult, thr)])
        ev["items"] = items
    elif kind == "add_ngram":
        k = _pick_key(rng, cfg)
        ev["key"] = k
        ev["n"] = _ngram_n(rng, len(k) // 2)
    else:
        ks = [_pick_key(rng, cfg) for _ in range(rng.randrange(0, 4))]
        ev["keys"] = ks
        ev["n"] = _ngram_n(rng, max([len(k) // 2 for k in ks] + [0]))
    return _draw_fields(rng, world, ev)


def can_cross(gs, a, b):
    if gs.groups is None:
        return True
    for g in gs.groups:
        if a in g:
            return b in g
    return True


def gen_network(rng, world, gs, kind):
    """kind in send/deliver/dup/drop/partition/heal; returns an event or None if not enabled"""
    N = len(world.nodes)
    if kind == "send":
        if N < 2:
            return None
        s = rng.randrange(N)
        d = rng.randrange(N - 1)
        if d >= s:
            d += 1
        gs.next_msg += 1
        return {"op": "send", "src": s, "dst": d, "kind": "file" if rng.random() < 0.6 else "live",
                "id": gs.next_msg, "style": rng.randrange(3)}
    if kind in ("deliver", "dup", "drop"):
        ids = [m.id for m in world.msgs.values() if kind != "deliver" or can_cross(gs, m.src, m.dst)]
        if not ids:
            return None
        # delivery order is the adversary's choice: newest-first half of the time (stale
        # snapshot after a fresh one), uniformly otherwise
        mid = ids[-1] if (kind == "deliver" and rng.random() < 0.3) else rng.choice(ids)
        if kind == "deliver":
            ev = {"op": "deliver", "id": mid, "via": 0}
            m = world.msgs[mid]
            if m.kind == "file" and world.fam in CMS and rng.random() < 0.5:
                ev["loader"] = "module"
            dn = world.nodes[m.dst]
            if dn.views and rng.random() < 0.5:
                ev["via"] = rng.randrange(1, len(dn.views) + 1)
            return ev
        if kind == "dup":
            gs.next_msg += 1
            return {"op": "dup", "id": mid, "new": gs.next_msg}
        return {"op": "drop", "id": mid}
    if kind == "partition":
        if N < 2 or gs.groups is not None:
            return None
        nodes = list(range(N))
        rng.shuffle(nodes)
        cut = rng.randrange(1, N)
        gs.groups = [set(nodes[:cut]), set(nodes[cut:])]
        return {"op": "partition", "groups": [sorted(g) for g in gs.groups]}
    if kind == "heal":
        if gs.groups is None:
            return None
        gs.groups = None
        return {"op": "heal"}
    return None


def gen_disk(rng, world, kind):
    N = len(world.nodes)
    i = rng.randrange(N)
    if kind == "save":
        return {"op": "save", "node": i, "style": rng.randrange(3), "via": _via(rng, world, i)}
    if kind == "crash_restart":
        cands = [j for j in range(N) if world.nodes[j].snaps]
        if not cands:
            return None
        i = rng.choice(cands)
        n = world.nodes[i]
        ev = {"op": "crash_restart", "node": i, "snap": -1, "loader": "class", "shared_load": False}
        if len(n.snaps) > 1 and rng.random() < 0.3:
            ev["snap"] = rng.randrange(len(n.snaps))
        if world.fam in CMS and rng.random() < 0.5:
            ev["loader"] = "module"
        if rng.random() < (0.5 if world.shared else 0.15):
            ev["shared_load"] = True
        return ev
    return None


def gen_views(rng, world, kind):
    if not world.shared:
        return None
    N = len(world.nodes)
    i = rng.randrange(N)
    n = world.nodes[i]
    if kind == "attach":
        if len(n.views) >= 2 or getattr(n.primary, "shm", None) is None:
            return None
        r = rng.random()
        # round 11 (S112): a share of the views are themselves shared-memory sketches (they own a
        # block of their own) before they attach to the node's block
        how = "helper" if r < 0.4 else ("shared_view" if r > 0.85 else "method")
        return {"op": "attach", "node": i, "how": how, "own_args": rng.random() < 0.7}
    if kind == "drop_view":
        if not n.views:
            return None
        return {"op": "drop_view", "node": i, "k": rng.randrange(len(n.views))}
    if kind == "drop_owner":
        if getattr(n.primary, "shm", None) is None:
            return None
        return {"op": "drop_owner", "node": i, "owner_first": rng.random() < 0.4}
    return None


def gen_event(rng, world, gs, weights, mult):
    """Draw event kinds until an enabled one is found (bounded); fall back to workload."""
    for _ in range(8):
        kind = wchoice(rng, weights)
        if kind == "work":
            ev = gen_workload(rng, world, mult)
        elif kind in ("send", "deliver", "dup", "drop", "partition", "heal"):
            ev = gen_network(rng, world, gs, kind)
        elif kind in ("save", "crash_restart"):
            ev = gen_disk(rng, world, kind)
        elif kind in ("attach", "drop_view", "drop_owner"):
            ev = gen_views(rng, world, kind)
        elif kind == "query":
            if world.fam not in CMS:
                ev = None
            else:
                i = rng.randrange(len(world.nodes))
                ev = {"op": "query", "node": i, "via": _via(rng, world, i), "key": _pick_key(rng, world.cfg)}
        elif kind == "set_records":
            i = rng.randrange(len(world.nodes))
            ev = {"op": "set_records", "node": i, "via": _via(rng, world, i),
                  "n": rng.choice([1, 2, 7, 1000, rng.getrandbits(40), (1 << 64) - 1 if rng.random() < 0.1 else 3])}
            if world.fam == "hll":
                ev = None
        else:
            ev = None
        if ev is not None:
            gs.last = ev["op"]
            return ev
    ev = gen_workload(rng, world, mult)
    gs.last = ev["op"]
    return ev
