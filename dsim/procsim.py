"""Engine P — the real helpers.parallel_add in one interpreter under a seeded scheduler.

Every would-be OS process (log worker, queue filler, n workers, merge workers) is a real
thread that runs only while it holds the baton. The baton changes hands only inside a
simulator primitive (queue put/get/close, process start/join/kill/exitcode, virtual
sleep, datetime.now, and the points the harness callback offers between sketch
updates); who proceeds is decided by the run PRNG, or by the recorded decision list when
a replay file is executed. Faults (callback raises, worker dies) are injected by plan.
"""
import datetime as _dt
import gc
import logging
import os
import pickle
import queue as _queue
import sys
import threading
import time

import numpy as np

from . import boot
from .core import Violation
from .world import install_draws

U32MAX = (1 << 32) - 1


class _Abort(BaseException):
    pass


class _Killed(BaseException):
    pass


class _Die(BaseException):
    """simulated os._exit(code) of a worker process"""

    def __init__(self, code):
        super().__init__(code)
        self.code = code


class Hang(Exception):
    pass


class Task:
    def __init__(self, name, pid, is_main=False):
        self.name = name
        self.pid = pid
        self.is_main = is_main
        self.sem = threading.Semaphore(0)
        self.state = "runnable"
        self.wake = None
        self.pred = None
        self.blocked_on = None
        self.exitcode = None
        self.kill_pending = False
        self.thread = None
        self.error = None
        self.seed = 0

    @property
    def done(self):
        return self.state == "done"


PERSONALITIES = ("uniform", "starve_one_worker", "favour_one_worker", "filler_first", "monitor_eager", "round_robin",
                 "workers_first")


class Sched:
    def __init__(self, rng=None, decisions=None, personality="uniform", step_cap=60000, time_cap=20000.0,
                 line_p=0.0, line_decisions=None):
        self.rng = rng
        self.replay = list(decisions) if decisions is not None else None
        self.rpos = 0
        # statement-level pre-emption inside helpers.py (sys.monitoring LINE events)
        self.line_p = line_p
        # recorded as {"<task>:<k>": d} = decision at the k-th instrumented line executed by
        # that task (stable under removal of other tasks' pre-emptions)
        self.lreplay = dict(line_decisions) if line_decisions is not None else None
        self.lcount = {}
        self.ldecisions = {}
        self.line_yields = 0
        self.line_stalls = 0
        self.stall_p = 0.0
        self.feed_p = 0.0  # probability that a Queue.put stays in the producer's feeder for a few steps
        self._main_woken = False
        self.personality = personality
        self.tasks = []
        self.by_ident = {}
        self.cur = None
        self.now = 0.0
        self.steps = 0
        self.step_cap = step_cap
        self.time_cap = time_cap
        self.decisions = []
        self.trace = []
        self.abort = None
        self.hang = None
        self.queues = {}
        self.fcount = {}
        self.next_pid = 1
        self.victim = None  # personality target
        self.rr = 0
        self.dt_reads = 0
        self.stats = {"switches": 0, "clock_jumps": 0, "queue_full_blocks": 0, "queue_empty_blocks": 0, "kills": 0}
        main = Task("main", 0, is_main=True)
        main.state = "running"
        main.thread = threading.current_thread()
        self.tasks.append(main)
        self.by_ident[threading.get_ident()] = main
        self.cur = main
        self.main = main

    # -- identity -------------------------------------------------------------------
    def me(self):
        return self.by_ident.get(threading.get_ident())

    # -- choice -------------------------------------------------------------------
    def _weights(self, runnable):
        p = self.personality
        ws = [1.0] * len(runnable)
        if p == "uniform":
            return ws
        for j, t in enumerate(runnable):
            nm = t.name
            if p == "starve_one_worker" and nm == self.victim:
                ws[j] = 0.0005
            elif p == "favour_one_worker" and nm.startswith("worker") and nm != self.victim:
                ws[j] = 0.02
            elif p == "filler_first" and nm == "filler":
                ws[j] = 50.0
            elif p == "monitor_eager" and nm == "main":
                ws[j] = 30.0
            elif p == "workers_first" and nm.startswith("worker"):
                ws[j] = 20.0
        return ws

    def pick(self, runnable):
        if len(runnable) == 1:
            return runnable[0]
        if self.replay is not None:
            # recorded choices are task names; a name that is not runnable here (the schedule
            # was edited by the minimiser) falls back to the first runnable task
            d = self.replay[self.rpos] if self.rpos < len(self.replay) else None
            self.rpos += 1
            idx = 0
            if d:
                for j, t in enumerate(runnable):
                    if t.name == d:
                        idx = j
                        break
        elif self.personality == "round_robin":
            self.rr += 1
            idx = self.rr % len(runnable)
        else:
            ws = self._weights(runnable)
            x = self.rng.random() * sum(ws)
            acc = 0.0
            idx = len(runnable) - 1
            for j, wv in enumerate(ws):
                acc += wv
                if x < acc:
                    idx = j
                    break
        self.decisions.append(runnable[idx].name if idx else "")
        return runnable[idx]

    STALLS = (0.05, 0.3, 1.2, 4.0)

    def ldecide(self, me):
        """pre-empt at this source line of helpers.py? 0 = no, -1 = yield the baton,
        dt > 0 = the process is descheduled (stalled) for dt simulated seconds"""
        k = self.lcount.get(me.name, 0)
        self.lcount[me.name] = k + 1
        key = f"{me.name}:{k}"
        if self.lreplay is not None:
            d = self.lreplay.get(key, 0)
        else:
            d = 0
            if self.rng.random() < self.line_p:
                d = -1
                if self.rng.random() < self.stall_p:
                    d = self.rng.choice(self.STALLS)
        if d:
            self.ldecisions[key] = d
        return d

    def fdecide(self, me):
        """Feeder lag of this put: 0 = the object is in the pipe when put() returns, n > 0 =
        it becomes visible to consumers (get, empty, qsize) n scheduler steps later. Real
        multiprocessing.Queue.put only hands the object to a feeder thread."""
        name = me.name if me is not None else "main"
        k = self.fcount.get(name, 0)
        self.fcount[name] = k + 1
        key = f"{name}:put{k}"
        if self.lreplay is not None:
            d = self.lreplay.get(key, 0)
        else:
            d = 0
            if self.feed_p and self.rng.random() < self.feed_p:
                d = self.rng.choice((1, 2, 3, 5, 9, 20))
        if d:
            self.ldecisions[key] = d
            self.stats["puts_lagging_in_feeder"] = self.stats.get("puts_lagging_in_feeder", 0) + 1
        return d

    def _feed(self, force=False):
        moved = False
        for q in self.queues.values():
            if q.inflight:
                moved = q._flush(self.steps, force) or moved
        return moved

    # -- dispatch -------------------------------------------------------------------
    def _runnable(self):
        self._feed()
        out = []
        for t in self.tasks:
            if t.state == "runnable":
                out.append(t)
            elif t.state == "blocked":
                if t.kill_pending or t.pred() or (t.wake is not None and t.wake <= self.now):
                    out.append(t)
            elif t.state == "sleeping":
                if t.kill_pending or t.wake <= self.now:
                    out.append(t)
        return out

    def _choose(self):
        """next task to run, advancing the clock when only sleepers remain; None on deadlock"""
        while True:
            r = self._runnable()
            if r:
                return self.pick(r)
            if self._feed(force=True):
                continue  # nothing can run until a feeder has written its object: it does
            sleepers = [t for t in self.tasks if t.state == "sleeping" or (t.state == "blocked" and t.wake is not None)]
            if not sleepers:
                return None
            self.now = min(t.wake for t in sleepers)
            boot.CLOCK.now = self.now
            self.stats["clock_jumps"] += 1
            if self.now > self.time_cap:
                return None

    def _declare_hang(self, kind):
        table = {t.name: (t.state, t.blocked_on) for t in self.tasks if not t.done}
        self.hang = f"{kind} at step {self.steps}, t={self.now:.2f}s: {table}"
        self.abort = self.hang

    def point(self, reason, pred=None, wake=None, blocked_on=None, deadline=None):
        """Scheduling point of the current task. pred: block until it holds (or, with a
        deadline, until that simulated time: the caller re-checks pred to tell which)."""
        me = self.me()
        if me is None:
            # not a simulated task (harness clean-up): only the clock moves
            if wake is not None:
                self.now = max(self.now, wake)
                boot.CLOCK.now = self.now
            return
        if self.abort:
            if wake is not None:
                return
            raise _Abort()
        if me is not self.cur or me.state != "running":
            import traceback
            raise RuntimeError(f"scheduler invariant broken: {me.name} ({me.state}) at a point while {self.cur.name} holds the baton\n" + "".join(traceback.format_stack()))
        if pred is not None:
            # the condition is re-evaluated whenever the task is a candidate: another task
            # may run first and consume what this one is waiting for
            me.state, me.pred, me.blocked_on = "blocked", pred, blocked_on
            me.wake = deadline
        elif wake is not None:
            me.state, me.wake, me.blocked_on = "sleeping", wake, f"sleep until {wake:.2f}"
        else:
            me.state = "runnable"
        self.steps += 1
        if self.steps > self.step_cap:
            self._declare_hang("livelock (step cap)")
            me.state = "running"
            raise _Abort()
        nxt = self._choose()
        if nxt is None:
            self._declare_hang("deadlock" if self.now <= self.time_cap else "livelock (simulated-time cap)")
            me.state = "running"
            raise _Abort()
        self.trace.append((self.steps, nxt.name, reason))
        if nxt is not me:
            self.stats["switches"] += 1
            self.cur = nxt
            nxt.state = "running"
            nxt.sem.release()
            me.sem.acquire()
        me.state = "running"
        me.pred = None
        me.blocked_on = None
        if self.abort:
            raise _Abort()
        if me.kill_pending and not me.is_main:
            raise _Killed()

    def finish(self, me):
        """called by a task's thread when its target has ended"""
        me.state = "done"
        if self.abort:
            # a hang declared by a child task: once that task has unwound, the parent is
            # woken so that it aborts out of parallel_add (the rest is drained afterwards)
            if not self.main.done and self.main.state != "running" and not self._main_woken:
                self._main_woken = True
                self.cur = self.main
                self.main.sem.release()
            return
        nxt = self._choose()
        if nxt is None:
            if all(t.done for t in self.tasks):
                return
            self._declare_hang("deadlock")
            # wake main so that it can abort
            if not self.main.done:
                self.cur = self.main
                self.main.sem.release()
            return
        self.trace.append((self.steps, nxt.name, "exit:" + me.name))
        self.cur = nxt
        nxt.state = "running"
        nxt.sem.release()

    def sleep(self, dt):
        me = self.me()
        if me is None:
            # a finaliser running outside any simulated task (thread teardown): it must not
            # move the simulated clock under the feet of the running task
            self.stats["stray_finalizer_sleeps"] = self.stats.get("stray_finalizer_sleeps", 0) + 1
            return
        if self.abort:
            self.now += float(dt)
            boot.CLOCK.now = self.now
            return
        self.point("sleep", wake=self.now + float(dt))

    def drain(self):
        """after the main task is out: unwind whatever is left, one task at a time"""
        if not self.abort:
            self.abort = "drain"
        for t in self.tasks:
            if t.is_main or t.done:
                continue
            t.sem.release()
            if t.thread is not None:
                t.thread.join(10)
                if t.thread.is_alive():
                    raise RuntimeError(f"simulated task {t.name} did not unwind")


_SCHED = None


def sched():
    return _SCHED


_MON_ID = 4
_mon_installed = False


def _on_line(code, line):
    s = _SCHED
    if s is None or not (s.line_p or s.lreplay is not None) or s.abort:
        return None
    me = s.by_ident.get(threading.get_ident())
    if me is None or me.state != "running" or s.cur is not me:
        return None
    d = s.ldecide(me)
    if d:
        s.line_yields += 1
        if d > 0:
            s.line_stalls += 1
            s.point(f"stall:{code.co_name}:{line}", wake=s.now + d)
        else:
            s.point(f"line:{code.co_name}:{line}")
    return None


def install_line_hooks():
    """Every source line of the helpers functions becomes a potential pre-emption point
    (PEP 669 local LINE events: only these code objects are instrumented)."""
    global _mon_installed
    if _mon_installed:
        return
    mon = sys.monitoring
    mon.use_tool_id(_MON_ID, "dsim")
    mon.register_callback(_MON_ID, mon.events.LINE, _on_line)
    H = boot.SK.helpers
    for name in ("parallel_add", "parallel_merging", "_worker", "_merge_worker", "_fill_queue", "_log_worker",
                 "attach_shared_memory"):
        mon.set_local_events(_MON_ID, getattr(H, name).__code__, mon.events.LINE)
    _mon_installed = True


# ----------------------------------------------------------------------------------
# multiprocessing stand-ins
# ----------------------------------------------------------------------------------
def _lookup_queue(qid):
    return _SCHED.queues[qid]


def _lookup_sync(oid):
    return _SCHED.syncs[oid]


def _register_sync(s, obj):
    if not hasattr(s, "syncs"):
        s.syncs = {}
    obj.oid = len(s.syncs)
    s.syncs[obj.oid] = obj


class SimQueue:
    def __init__(self, s, maxsize=0):
        self.s = s
        self.qid = len(s.queues)
        s.queues[self.qid] = self
        self.maxsize = maxsize
        self.items = []
        self.closed_in = set()
        self.max_depth = 0
        self.unfinished = 0
        self.inflight = []  # [release_step, pid, data]: handed to put(), not yet in the pipe

    def __reduce__(self):
        return (_lookup_queue, (self.qid,))

    def _pid(self):
        me = self.s.me()
        return me.pid if me is not None else 0

    def put(self, obj, block=True, timeout=None):
        if self._pid() in self.closed_in:
            raise ValueError(f"Queue {self!r} is closed")
        data = pickle.dumps(obj)
        if self.maxsize > 0 and len(self.items) >= self.maxsize:
            self.s.stats["queue_full_blocks"] += 1
        room = (lambda: len(self.items) + len(self.inflight) < self.maxsize) if self.maxsize > 0 else None
        if room is not None and not block:
            if not room():
                raise _queue.Full()
            self.s.point(f"put:q{self.qid}")
        else:
            self.s.point(f"put:q{self.qid}", pred=room, blocked_on=f"put on full q{self.qid}",
                         deadline=None if (timeout is None or room is None) else self.s.now + max(0.0, float(timeout)))
            if room is not None and not room():
                raise _queue.Full()
        self.unfinished += 1
        pid = self._pid()
        d = self.s.fdecide(self.s.me())
        mine = [f for f in self.inflight if f[1] == pid]
        if d or mine:
            # FIFO per producer: behind whatever this process still has in its feeder
            rel = max([self.s.steps + d] + [f[0] for f in mine])
            self.inflight.append([rel, pid, data])
        else:
            self.items.append(data)
        self.max_depth = max(self.max_depth, len(self.items) + len(self.inflight))

    def get(self, block=True, timeout=None):
        if self._pid() in self.closed_in:
            raise ValueError(f"Queue {self!r} is closed")
        if not self.items:
            self.s.stats["queue_empty_blocks"] += 1
        if not block:
            if not self.items:
                raise _queue.Empty()
            self.s.point(f"get:q{self.qid}")
        else:
            self.s.point(f"get:q{self.qid}", pred=lambda: len(self.items) > 0, blocked_on=f"get on empty q{self.qid}",
                         deadline=None if timeout is None else self.s.now + max(0.0, float(timeout)))
        if not self.items:
            raise _queue.Empty()
        obj = pickle.loads(self.items.pop(0))
        run = _RUN
        me = self.s.me()
        if run is not None and me is not None and me.name.startswith("worker") and self.maxsize > 0:
            td = run.get("take_death")
            if obj is None:
                if run.get("pill_death") == me.name:
                    run["fired"].append(("pill", me.name, "die"))
                    raise _Die(run.get("death_code", 7))
            else:
                run["takes"][me.name] = run["takes"].get(me.name, 0) + 1
                if td and td[0] == me.name and td[1] == run["takes"][me.name]:
                    run["fired"].append(("take", me.name, "die"))
                    run["lost_items"].append(obj[0])
                    raise _Die(run.get("death_code", 7))
        return obj

    def _flush(self, step, force=False, pid=None, lose=False):
        """Move objects whose feeder has caught up into the pipe, in put order. pid: everything
        that process still holds (its feeder is joined; lose=True: the process was killed and
        the objects are gone). force: the oldest object regardless of its release step."""
        moved = False
        keep = []
        for f in self.inflight:
            if pid is not None:
                due = f[1] == pid
            else:
                due = f[0] <= step or (force and not moved)
            if not due:
                keep.append(f)
                continue
            moved = True
            if lose:
                self.unfinished -= 1
            else:
                self.items.append(f[2])
        self.inflight = keep
        return moved

    def close(self):
        self.closed_in.add(self._pid())
        self.s.point(f"close:q{self.qid}")

    def join_thread(self):
        # blocks until this process's feeder has written everything it was given
        self._flush(self.s.steps, pid=self._pid())
        self.s.point(f"join_thread:q{self.qid}")

    def cancel_join_thread(self):
        pass

    def empty(self):
        self._flush(self.s.steps)
        return not self.items

    def full(self):
        return self.maxsize > 0 and len(self.items) + len(self.inflight) >= self.maxsize

    def qsize(self):
        self._flush(self.s.steps)
        return len(self.items)

    def get_nowait(self):
        return self.get(False)

    def task_done(self):
        if self.unfinished <= 0:
            raise ValueError("task_done() called too many times")
        self.unfinished -= 1
        self.s.point(f"task_done:q{self.qid}")

    def join(self):
        self.s.point(f"qjoin:q{self.qid}", pred=lambda: self.unfinished <= 0, blocked_on=f"join of q{self.qid}")

    def put_nowait(self, obj):
        return self.put(obj, False)


class SimProcess:
    def __init__(self, s, target=None, args=(), kwargs=None, name=None):
        self.s = s
        self.target = target
        self.args = tuple(args)
        self.kwargs = dict(kwargs or {})
        self.task = None
        self.name = name
        self.daemon = False

    def start(self):
        s = self.s
        # spawn pickles the process object: unpicklable arguments fail here, as they do
        # with the real spawn context
        payload = pickle.dumps((self.target, self.args, self.kwargs))
        tname = getattr(self.target, "__name__", "proc")
        if tname == "_worker":
            nm = f"worker{self.args[0]}"
        elif tname == "_fill_queue":
            nm = "filler"
        elif tname == "_log_worker":
            nm = "logger"
        elif tname == "_merge_worker":
            nm = f"merger{s.next_pid}"
        else:
            nm = f"{tname}{s.next_pid}"
        t = Task(nm, s.next_pid)
        s.next_pid += 1
        t.seed = (s.base_seed * 1000003 + t.pid * 7919) & 0x7FFFFFFF
        self.task = t

        def body():
            t.sem.acquire()
            s.by_ident[threading.get_ident()] = t
            code = 0
            try:
                if s.abort:
                    raise _Abort()
                if t.kill_pending:
                    raise _Killed()
                boot.numba_seed(t.seed)
                target, args, kwargs = pickle.loads(payload)
                target(*args, **kwargs)
            except BaseException as e:
                if isinstance(e, _Abort):
                    code = None
                elif isinstance(e, _Killed):
                    code = -9
                elif isinstance(e, _Die):
                    code = e.code
                else:  # uncaught exception in a child: exit code 1
                    code = 1
                    t.error = f"{type(e).__name__}: {e}"
                # release the dead process's frames (and the sketches attached in them) here,
                # while this task still holds the baton; left to thread teardown their
                # finalisers would run concurrently with the next task
                import traceback as _tb

                try:
                    _tb.clear_frames(e.__traceback__)
                except Exception:
                    pass
                e.__traceback__ = None
            target = args = kwargs = None
            # a process that exits normally joins its feeder threads first; one that is killed or
            # dies takes what its feeders still held with it
            for q in s.queues.values():
                if q.inflight:
                    q._flush(s.steps, pid=t.pid, lose=code not in (0, 1))
            t.exitcode = code
            try:
                s.finish(t)
            finally:
                s.by_ident.pop(threading.get_ident(), None)

        th = threading.Thread(target=body, name=nm, daemon=True)
        t.thread = th
        s.tasks.append(t)
        th.start()
        s.point("start:" + nm)

    @property
    def exitcode(self):
        if self.task is None:
            return None
        self.s.point("exitcode:" + self.task.name)
        return self.task.exitcode

    def is_alive(self):
        return self.task is not None and not self.task.done

    def join(self, timeout=None):
        if self.task is None:
            raise AssertionError("can only join a started process")
        t = self.task
        self.s.point("join:" + t.name, pred=lambda: t.done, blocked_on=f"join {t.name}",
                     deadline=None if timeout is None else self.s.now + max(0.0, float(timeout)))

    @property
    def sentinel(self):
        if self.task is None:
            raise ValueError("process not started")
        return SimSentinel(self)

    def close(self):
        if self.task is not None and not self.task.done:
            raise ValueError("Cannot close a process while it is still running. You should first call join() or terminate().")

    def kill(self):
        if self.task is None:
            raise AttributeError("process not started")
        if not self.task.done:
            self.task.kill_pending = True
            self.s.stats["kills"] += 1
        self.s.point("kill:" + self.task.name)

    terminate = kill

    @property
    def pid(self):
        return self.task.pid if self.task else None


class SimSentinel:
    """stands for Process.sentinel: ready once the process has ended"""

    def __init__(self, proc):
        self.proc = proc

    def __eq__(self, other):
        return isinstance(other, SimSentinel) and other.proc is self.proc

    def __hash__(self):
        return hash(id(self.proc))


import multiprocessing.connection as _mpc  # noqa: E402

_REAL_WAIT = _mpc.wait


def sim_wait(object_list, timeout=None):
    """multiprocessing.connection.wait over simulated sentinels (anything else: the real one)"""
    objs = list(object_list)
    if not objs or not all(isinstance(o, SimSentinel) for o in objs):
        return _REAL_WAIT(objs, timeout)
    s = objs[0].proc.s

    def ready():
        return [o for o in objs if o.proc.task is not None and o.proc.task.done]

    s.point("wait:sentinels", pred=lambda: bool(ready()), blocked_on="connection.wait",
            deadline=None if timeout is None else s.now + max(0.0, float(timeout)))
    return ready()


class SimEvent:
    """multiprocessing.Event under the scheduler"""

    def __init__(self, s):
        self.s = s
        self.flag = False
        _register_sync(s, self)

    def __reduce__(self):
        return (_lookup_sync, (self.oid,))

    def is_set(self):
        self.s.point("event:is_set")
        return self.flag

    def set(self):
        self.flag = True
        self.s.point("event:set")

    def clear(self):
        self.flag = False
        self.s.point("event:clear")

    def wait(self, timeout=None):
        self.s.point("event:wait", pred=lambda: self.flag, blocked_on="event.wait",
                     deadline=None if timeout is None else self.s.now + max(0.0, float(timeout)))
        return self.flag


class SimLock:
    """multiprocessing.Lock / RLock / Semaphore(value) under the scheduler (no ownership check)"""

    def __init__(self, s, value=1):
        self.s = s
        self.value = value
        _register_sync(s, self)

    def __reduce__(self):
        return (_lookup_sync, (self.oid,))

    def acquire(self, block=True, timeout=None):
        if not block:
            if self.value <= 0:
                return False
            self.value -= 1
            self.s.point("lock:acquire")
            return True
        self.s.point("lock:acquire", pred=lambda: self.value > 0, blocked_on="lock.acquire",
                     deadline=None if timeout is None else self.s.now + max(0.0, float(timeout)))
        if self.value <= 0:
            return False
        self.value -= 1
        return True

    def release(self):
        self.value += 1
        self.s.point("lock:release")

    def __enter__(self):
        self.acquire()
        return self

    def __exit__(self, *a):
        self.release()
        return False


class SimContext:
    def __init__(self, s):
        self.s = s

    def Queue(self, maxsize=0):
        return SimQueue(self.s, maxsize)

    def JoinableQueue(self, maxsize=0):
        return SimQueue(self.s, maxsize)

    def SimpleQueue(self):
        return SimQueue(self.s, 0)

    def Event(self):
        return SimEvent(self.s)

    def Lock(self):
        return SimLock(self.s, 1)

    RLock = Lock

    def Semaphore(self, value=1):
        return SimLock(self.s, value)

    BoundedSemaphore = Semaphore

    def cpu_count(self):
        import os as _os

        return _os.cpu_count()

    def get_start_method(self, allow_none=False):
        return "spawn"

    def Process(self, group=None, target=None, name=None, args=(), kwargs=None):
        return SimProcess(self.s, target=target, args=args, kwargs=kwargs, name=name)


class SimDatetime:
    """helpers reads datetime.now() and divides by the elapsed time; the virtual clock
    advances 1 microsecond per read (a real microsecond clock never returns equal reads
    around a callback)."""

    @staticmethod
    def now():
        s = _SCHED
        s.dt_reads += 1
        return _dt.datetime(2020, 1, 1) + _dt.timedelta(seconds=s.now, microseconds=s.dt_reads)


# ----------------------------------------------------------------------------------
# the harness callback (module level: spawn pickles it by reference)
# ----------------------------------------------------------------------------------
_RUN = None  # dict describing the current run: plan, ledger


def make_exception(name, item_id):
    """assorted Exception subclasses a user callback may raise (I/O errors with their errno,
    lookup/arith/type errors, a user-defined class)"""
    import errno

    msg = f"injected callback failure on item {item_id}"
    if name.startswith("OSError:"):
        code = getattr(errno, name.split(":")[1])
        cls = {errno.EAGAIN: BlockingIOError, errno.EINTR: InterruptedError, errno.ETIMEDOUT: TimeoutError,
               errno.ENOENT: FileNotFoundError, errno.EACCES: PermissionError, errno.EPIPE: BrokenPipeError,
               errno.ECONNRESET: ConnectionResetError}.get(code, OSError)
        return cls(code, msg)
    if name == "UnicodeDecodeError":
        return UnicodeDecodeError("utf-8", b"\xff", 0, 1, msg)
    if name == "KeyError":
        return KeyError(item_id)
    if name == "UserDefined":
        return InjectedError(msg)
    return {"RuntimeError": RuntimeError, "ValueError": ValueError, "IndexError": IndexError, "TypeError": TypeError,
            "ZeroDivisionError": ZeroDivisionError, "AssertionError": AssertionError, "MemoryError": MemoryError,
            "StopIteration": StopIteration, "LookupError": LookupError, "EOFError": EOFError,
            "NotImplementedError": NotImplementedError, "OverflowError": OverflowError}.get(name, RuntimeError)(msg)


class InjectedError(Exception):
    pass


EXC_NAMES = ["RuntimeError", "ValueError", "KeyError", "IndexError", "TypeError", "ZeroDivisionError", "AssertionError",
             "MemoryError", "StopIteration", "LookupError", "EOFError", "NotImplementedError", "OverflowError",
             "UnicodeDecodeError", "UserDefined", "OSError:EAGAIN", "OSError:EINTR", "OSError:ETIMEDOUT", "OSError:ENOENT",
             "OSError:EACCES", "OSError:EPIPE", "OSError:ECONNRESET", "OSError:ESTALE", "OSError:ENOSPC", "OSError:EIO",
             "OSError:EBUSY", "OSError:ENOMEM"]


def obj_key(o):
    return type(o).__name__ + ":" + repr(o)


def build_obj(spec):
    t, v = spec["t"], spec["v"]
    if t == "bytes":
        return bytes.fromhex(v)
    if t == "tuple":
        return tuple(v)
    return v


def callback(q_item, *sketches, **kwargs):
    run = _RUN
    s = _SCHED
    if isinstance(q_item, tuple) and len(q_item) == 3 and isinstance(q_item[1], list):
        item_id, pairs, n_recs = q_item
    else:
        # an item may be any picklable object; the harness keeps its payload in a side table
        item_id, pairs, n_recs = run["by_obj"][obj_key(q_item)]
    me = s.me()
    who = me.name if me is not None else "?"
    run["ledger"].append((item_id, who))
    fault = run["plan"].get(item_id)
    if kwargs.get("tag") != run["tag"]:
        run["kwargs_lost"] = True
    phase = fault["phase"] if fault else None
    kind = fault["kind"] if fault else None

    def fire():
        if kind == "raise":
            run["fired"].append((item_id, phase, "raise"))
            raise make_exception(fault.get("exc", "RuntimeError"), item_id)
        run["fired"].append((item_id, phase, "die"))
        raise _Die(fault.get("code", 7))

    if phase == "before":
        fire()
    half = len(pairs) // 2
    for j, (hk, v) in enumerate(pairs):
        if phase == "mid" and j == half:
            # part of the item has landed in every sketch, the rest never will
            fire()
        k = bytes.fromhex(hk)
        for sk in sketches:
            sk.add(k, v)
        dl = run["delays"].get(item_id)
        if dl and j < len(dl) and dl[j] > 0:
            s.sleep(dl[j])  # simulated processing time (slow or stalled worker)
        elif run["preempt"]:
            s.point("cb")
    if phase == "mid" and half >= len(pairs):
        fire()
    if phase == "after":
        fire()
    rt = run.get("ret_type", "int")
    if rt == "int64":
        return np.int64(n_recs)
    if rt == "uint64":
        return np.uint64(n_recs)
    if rt == "int32":
        return np.int32(n_recs)
    return n_recs


def items_generator(items):
    for it in items:
        yield it


# ----------------------------------------------------------------------------------
# one simulated run
# ----------------------------------------------------------------------------------
class Outcome:
    pass


def _wrap_factories(run):
    """Module-level name seams: helpers.CountMin is wrapped so that the log sketches'
    first batch does not come from OS entropy; the SharedMemory name of the three sketch
    modules is replaced by a recording subclass so that owner segments are known."""
    from multiprocessing.shared_memory import SharedMemory

    SK = boot.SK
    real_cm = SK.countmin.CountMin

    def count_min(*a, **k):
        sk = real_cm(*a, **k)
        if hasattr(sk, "rand_nums"):
            me = _SCHED.me()
            run["draw_ctr"] += 1
            install_draws(sk, (run["seed"] * 31 + (me.pid if me else 0) * 1009 + run["draw_ctr"]) & 0x7FFFFFFF, 0)
        return sk

    class RecordingSharedMemory(SharedMemory):
        def __init__(self, name=None, create=False, size=0):
            super().__init__(name=name, create=create, size=size)
            if create:
                run["segments"].append(self.name)
            else:
                run["attaches"] += 1

    saved = {"CountMin": SK.helpers.CountMin, "shm": [(m, m.SharedMemory) for m in (SK.countmin, SK.heavyhitters, SK.hyperloglog)]}
    SK.helpers.CountMin = count_min
    for m, _ in saved["shm"]:
        m.SharedMemory = RecordingSharedMemory
    return saved


def _restore_factories(saved):
    boot.SK.helpers.CountMin = saved["CountMin"]
    for m, orig in saved["shm"]:
        m.SharedMemory = orig


def simulate(desc, rng=None):
    """Execute one run description. Returns an Outcome with everything the oracles need."""
    global _SCHED, _RUN
    H = boot.SK.helpers
    decisions = desc.get("decisions")
    install_line_hooks()
    s = Sched(rng=rng, decisions=decisions, personality=desc.get("personality", "uniform"),
              step_cap=desc.get("step_cap", 60000), line_p=desc.get("line_p", 0.0),
              line_decisions=desc.get("line_decisions"))
    s.base_seed = desc.get("seed", 0)
    s.stall_p = desc.get("stall_p", 0.0)
    s.feed_p = desc.get("feed_p", 0.0)
    s.victim = desc.get("victim")
    _SCHED = s
    gc.collect()  # leftovers of earlier runs in this process are finalised outside the simulation
    run = {"plan": {int(k): v for k, v in desc.get("plan", {}).items()}, "ledger": [], "fired": [], "segments": [],
           "preempt": desc.get("preempt", True), "tag": desc.get("tag", "t"), "seed": desc.get("seed", 0), "draw_ctr": 0, "attaches": 0,
           "delays": {int(k): v for k, v in desc.get("delays", {}).items()}, "takes": {}, "lost_items": [],
           "ret_type": desc.get("ret_type", "int"), "pill_death": desc.get("pill_death"), "take_death": desc.get("take_death"), "death_code": desc.get("death_code", 7)}
    _RUN = run
    boot.CLOCK.reset()
    boot.CLOCK.hook = s.sleep
    old = (H.get_context, H.datetime)
    H.get_context = lambda method=None: SimContext(s)
    H.datetime = SimDatetime
    # multiprocessing.connection.wait over process sentinels: stdlib attribute and, if the
    # tree imported the name, the module-level name
    _mpc.wait = sim_wait
    old_wait_names = [n for n in dir(H) if getattr(H, n, None) is _REAL_WAIT]
    for n in old_wait_names:
        setattr(H, n, sim_wait)
    old_psutil = H.psutil
    if desc.get("nw_none"):
        # n_workers=None: the documented default takes the physical core count from psutil
        # (module-level name seam); the simulated machine has desc["n_workers"] cores
        class _FakePsutil:
            @staticmethod
            def cpu_count(logical=True):
                return desc["n_workers"]

        H.psutil = _FakePsutil
    real = _wrap_factories(run)
    gc_was = gc.isenabled()
    gc.disable()
    boot.numba_seed(desc.get("seed", 0) + 17)
    out = Outcome()
    out.result = None
    out.exc = None
    out.hang = None
    items = [tuple(it) if not isinstance(it, tuple) else it for it in (tuple(x) for x in desc["items"])]
    items = [(it[0], [tuple(p) for p in it[1]], it[2]) for it in items]
    objs = desc.get("item_objs") or {}
    run["by_obj"] = {}
    passed = []
    for it in items:
        spec = objs.get(str(it[0]))
        if spec is None:
            passed.append(it)
        else:
            o = build_obj(spec)
            run["by_obj"][obj_key(o)] = it
            passed.append(o)
    arg_items = items_generator(passed) if desc.get("as_generator") else list(passed)
    unraisable = []
    old_hook = sys.unraisablehook
    sys.unraisablehook = lambda u: unraisable.append(repr(u.exc_value))
    try:
        try:
            out.result = H.parallel_add(arg_items, callback, n_workers=None if desc.get("nw_none") else desc["n_workers"],
                                        cms_args=desc.get("cms_args"),
                                        hh_args=desc.get("hh_args"), hll_args=desc.get("hll_args"), tag=run["tag"])
        except _Abort:
            out.hang = s.hang or s.abort
        except Exception as e:
            # drop the traceback here, at a deterministic point inside the run: it holds the
            # parallel_add frame (and through it every per-worker sketch); left alone it would
            # form a cycle that some later run's gc.collect() finalises
            e.__traceback__ = None
            out.exc = e
        if s.hang and not out.hang and out.exc is None:
            # the hang was declared while the declaring task sat inside a finaliser (where the
            # abort exception is swallowed): the run is a hang all the same
            out.hang = s.hang
            out.result = None
        s.main.state = "done"
        leftover = [t.name for t in s.tasks if not t.done and not t.is_main]
        out.leftover = leftover
        s.drain()
    finally:
        s.line_p, s.lreplay = 0.0, None
        boot.CLOCK.hook = None
        H.get_context, H.datetime = old
        _mpc.wait = _REAL_WAIT
        for n in old_wait_names:
            setattr(H, n, _REAL_WAIT)
        H.psutil = old_psutil
        _restore_factories(real)
        sys.unraisablehook = old_hook
        if gc_was:
            gc.enable()
    out.sched = s
    out.run = run
    out.unraisable = unraisable
    out.items = items
    out.tasks = {t.name: t.exitcode for t in s.tasks if not t.is_main}
    out.errors = {t.name: t.error for t in s.tasks if t.error}
    return out
