"""Run loop, replay and minimisation for engine W."""
import copy
import gc
import hashlib
import json
import os
import sys

from . import boot
from .core import HarnessError, Violation, ddmin, digest_obj
from .gen import GenState, gen_event
from .world import CodeRaised, World, state_hash


class Checker:
    """Base: per-property invariants evaluated around every event."""

    prop = "C00"

    def before(self, w, ev):
        return None

    def after(self, w, ev, ctx, info):
        return None

    def final(self, w):
        return None

    def fail(self, inv, detail):
        raise Violation(self.prop, inv, detail)


class WMode:
    """One property's use of engine W: configuration draw, event mix, checker."""

    prop = "C00"
    engine = "W"

    def draw(self, rng):
        raise NotImplementedError

    def checker(self, cfg):
        raise NotImplementedError

    def weights(self, cfg):
        return cfg["weights"]

    def mult(self, cfg):
        return cfg["mult"]

    def gen(self, rng, w, gs):
        return gen_event(rng, w, gs, self.weights(w.cfg), self.mult(w.cfg))

    def final_events(self, rng, w, gs):
        return []

    def nontrivial(self, w):
        return True


def _installed_hook(w):
    def hook(unraisable):
        w.unraisable.append(repr(unraisable.exc_value))

    return hook


def step_guarded(w, ev, chk):
    """Apply one event. An exception raised by the code under test inside an API call of
    a legal event is a violation of class raised:<call>:<Type>; any other exception is a
    harness error and propagates."""
    try:
        return w.step(ev, chk)
    except CodeRaised as ce:
        raise Violation(chk.prop, f"raised:{ce.op}:{type(ce.exc).__name__}",
                        f"event {ev.get('op')}: {type(ce.exc).__name__}: {ce.exc}")


def execute(mode, cfg, events, collect=None):
    """Replay a recorded event list in a fresh world. Returns (violation|None, index)."""
    w = World(cfg)
    old_hook = sys.unraisablehook
    sys.unraisablehook = _installed_hook(w)
    chk = mode.checker(cfg)
    try:
        for i, ev in enumerate(events):
            try:
                step_guarded(w, ev, chk)
            except Violation as v:
                return v, i
        try:
            chk.final(w)
        except Violation as v:
            return v, len(events)
        return None, len(events)
    finally:
        if collect is not None:
            collect(w)
        w.close()
        sys.unraisablehook = old_hook


def run_one(mode, rng, run_index, want_sample=False):
    mode.run_index = run_index
    cfg = mode.draw(rng)
    if cfg.get("shared"):
        gc.collect()  # leftovers of earlier runs are finalised before this run's clock starts
    w = World(cfg)
    old_hook = sys.unraisablehook
    sys.unraisablehook = _installed_hook(w)
    chk = mode.checker(cfg)
    gs = GenState()
    events = []
    viol = None
    try:
        try:
            for _ in range(cfg["n_events"]):
                ev = mode.gen(rng, w, gs)
                events.append(ev)
                step_guarded(w, ev, chk)
                w.state_hashes.add(state_hash(w.nodes[ev["node"]].primary, w.fam)
                                   if "node" in ev and 0 <= ev["node"] < len(w.nodes) and w.nodes[ev["node"]].primary is not None
                                   else "")
            for ev in mode.final_events(rng, w, gs):
                events.append(ev)
                step_guarded(w, ev, chk)
            chk.final(w)
        except Violation as v:
            viol = v
        sig = digest_obj([cfg, events])
        finals = hashlib.sha1(
            b"".join(state_hash(n.primary, w.fam).encode() for n in w.nodes if n.primary is not None)
        ).hexdigest()[:12]
        res = {
            "i": run_index,
            "events": len(events),
            "sim_s": boot.CLOCK.now,
            "counters": dict(w.counters),
            "probes": dict(w.probes),
            "sig": sig,
            "nontrivial": bool(mode.nontrivial(w)),
            "final_state": finals,
            "states": len(w.state_hashes),
            "digest": sig + finals + str(len(w.state_hashes)) + (viol.inv if viol is not None else ""),
        }
        if w.unraisable:
            res["probes"]["unraisable_in_del"] = len(w.unraisable)
        if viol is None and hasattr(mode, "hist"):
            h = mode.hist(w)
            if h:
                res["hist"] = h
        if want_sample:
            res["sample"] = {"config": {k: v for k, v in cfg.items() if k not in ("weights", "mult")},
                             "events": events[:12], "n_events": len(events)}
        if viol is not None:
            res["violation"] = {"prop": viol.prop, "inv": viol.inv, "detail": str(viol.detail)[:2000],
                                "config": cfg, "events": events}
        return res
    finally:
        w.close()
        sys.unraisablehook = old_hook


def same_class(v, prop, inv):
    return v is not None and v.prop == prop and v.inv == inv


def in_child(fn, *args, timeout=900):
    """Run fn(*args) in a forked child of this process and return its (picklable) result.
    The child inherits this interpreter as it is now and whatever it leaves behind in
    module or class state dies with it: an execution cannot influence the next one."""
    import pickle
    import select

    rd, wr = os.pipe()
    pid = os.fork()
    if pid == 0:
        code = 0
        try:
            os.close(rd)
            try:
                data = pickle.dumps(("ok", fn(*args)))
            except BaseException as e:  # noqa: BLE001
                import traceback

                data = pickle.dumps(("err", "".join(traceback.format_exception(e))[-3000:]))
            with os.fdopen(wr, "wb") as f:
                f.write(data)
        except BaseException:  # noqa: BLE001
            code = 3
        finally:
            os._exit(code)
    os.close(wr)
    chunks = []
    import time as _time

    end = _time.time() + timeout
    with os.fdopen(rd, "rb") as f:
        while True:
            left = end - _time.time()
            if left <= 0 or not select.select([f], [], [], left)[0]:
                os.kill(pid, 9)
                os.waitpid(pid, 0)
                raise HarnessError(f"forked execution exceeded {timeout}s")
            b = os.read(f.fileno(), 1 << 16)
            if not b:
                break
            chunks.append(b)
    os.waitpid(pid, 0)
    if not chunks:
        raise HarnessError("forked execution died without a result")
    kind, val = pickle.loads(b"".join(chunks))
    if kind == "err":
        raise HarnessError("forked execution failed: " + val)
    return val


def _execute_plain(mode, cfg, events):
    v, idx = execute(mode, cfg, events)
    return (None if v is None else (v.prop, v.inv, str(v.detail)[:2000])), idx


def execute_hermetic(mode, cfg, events):
    """execute() in a forked child: same result, nothing carried over."""
    t, idx = in_child(_execute_plain, mode, cfg, events, timeout=300)
    if t is None:
        return None, idx
    v = Violation(t[0], t[1], t[2])
    return v, idx


def minimise(mode, cfg, events, prop, inv, budget=1500, wall=240.0, hermetic=False):
    """ddmin over the event list, then argument shrinking, keeping the violation class.
    Bounded by a number of replays and by wall time: whatever has been reached by then is
    reported (it still reproduces; it is just less small). hermetic=True executes every
    candidate in its own forked child (slower; immune to state that the tree under test
    keeps at module or class level)."""
    import time as _time

    tests = [0]
    t0 = _time.time()
    execute = execute_hermetic if hermetic else globals()["execute"]

    def fails(evs, c=None):
        if tests[0] > 0 and (_time.time() - t0 > wall or tests[0] > budget * 2):
            return False
        tests[0] += 1
        v, _ = execute(mode, c or cfg, evs)
        return same_class(v, prop, inv)

    if not fails(events):
        return cfg, events, False
    # cut the tail after the failing event first
    v, idx = execute(mode, cfg, events)
    events = events[: idx + 1]
    events = ddmin(events, fails, max_tests=budget)
    # argument shrinking
    changed = True
    rounds = 0
    while changed and rounds < 4 and tests[0] < budget * 2:
        changed = False
        rounds += 1
        for i in range(len(events)):
            ev = events[i]
            for cand in shrink_event(ev):
                trial = events[:i] + [cand] + events[i + 1 :]
                if fails(trial):
                    events = trial
                    changed = True
                    break
        for c2 in shrink_config(cfg):
            if fails(events, c2):
                cfg = c2
                changed = True
                break
    return cfg, events, True


def shrink_event(ev):
    out = []
    if "v" in ev and isinstance(ev["v"], int):
        for c in (1, 2, (1 << 32) - 1, ev["v"] // 2):
            if c != ev["v"] and 0 <= c < ev["v"]:
                e = dict(ev)
                e["v"] = c
                out.append(e)
    for fld in ("keys", "items"):
        if fld in ev and len(ev[fld]) > 1:
            L = len(ev[fld])
            if L > 16:
                # long lists: halves and quarters only (element-wise removal would need L replays)
                cuts = [(0, L // 2), (L // 2, L), (0, L // 4), (L - L // 4, L), (1, L), (0, L - 1)]
                for a, b in cuts:
                    e = dict(ev)
                    e[fld] = ev[fld][:a] + ev[fld][b:]
                    out.append(e)
            else:
                for j in range(L):
                    e = dict(ev)
                    e[fld] = ev[fld][:j] + ev[fld][j + 1 :]
                    out.append(e)
    if isinstance(ev.get("key"), str) and len(ev["key"]) > 2:
        for c in ("61", "62", "63"):
            e = dict(ev)
            e["key"] = c
            out.append(e)
    if "keys" in ev and len(ev["keys"]) <= 64 and any(len(k) > 2 for k in ev["keys"]):
        for c in ("61", "62"):
            e = dict(ev)
            e["keys"] = [c if len(k) > 2 else k for k in ev["keys"]]
            out.append(e)
    if "items" in ev and any(len(k) > 2 for k, _ in ev["items"]):
        for c in ("61", "62"):
            seen, items = set(), []
            for k, v in ev["items"]:
                k2 = c if len(k) > 2 else k
                if k2 not in seen:
                    seen.add(k2)
                    items.append([k2, v])
            e = dict(ev)
            e["items"] = items
            out.append(e)
    if ev.get("via"):
        e = dict(ev)
        e["via"] = 0
        out.append(e)
    if ev.get("ptr"):
        e = dict(ev)
        e["ptr"] = 0
        out.append(e)
    if ev.get("node", 0) > 0:
        e = dict(ev)
        e["node"] = 0
        out.append(e)
    return out


def shrink_config(cfg):
    out = []
    for key in ("width", "depth", "n_nodes"):
        if cfg.get(key, 1) > 1:
            c = copy.deepcopy(cfg)
            c[key] = cfg[key] - 1
            out.append(c)
            if cfg[key] > 2:
                c = copy.deepcopy(cfg)
                c[key] = 1
                out.insert(0, c)
    return out
