#!/venv/bin/python
"""Launcher (kept outside the package so that no module is loaded twice)."""
import os
import sys

sys.path.insert(0, os.path.dirname(os.path.abspath(__file__)))
from dsim.cli import main  # noqa: E402

if __name__ == "__main__":
    rc = main()
    sys.stdout.flush()
    sys.stderr.flush()
    os._exit(rc if isinstance(rc, int) else 0)
