#!/venv/bin/python
"""Launcher (kept outside the package so that no module is loaded twice)."""
import os
import sys

sys.path.insert(0, os.path.dirname(os.path.abspath(__file__)))

if __name__ == "__mp_main__":
    # spawned child of a real multiprocessing run (anchors): import the tree under test
    # through the same boot path (source-keyed numba cache) before helpers unpickles
    from dsim import boot as _boot

    _boot.pin_env()
    _boot.boot()

if __name__ == "__main__":
    if len(sys.argv) >= 3 and sys.argv[1] == "--anchor":
        from dsim import boot as _boot

        if _boot.pin_env():
            os.execve(sys.executable, [sys.executable] + sys.argv, os.environ)
        from dsim.anchor import run_real

        rc = run_real(sys.argv[2])
    elif len(sys.argv) >= 4 and sys.argv[1] == "--anchor-batch":
        import json as _json

        from dsim import boot as _boot

        if _boot.pin_env():
            os.execve(sys.executable, [sys.executable] + sys.argv, os.environ)
        from dsim.anchor import run_real_only

        names = _json.loads(sys.argv[3])
        print("ANCHOR-BATCH " + _json.dumps(run_real_only(sys.argv[2], names)))
        rc = 0
    else:
        from dsim.cli import main

        try:
            rc = main()
        except SystemExit as e:
            rc = e.code if isinstance(e.code, int) else 2
        except BaseException:  # noqa: BLE001 - a crash of the machinery is never exit 1 (= violation)
            import traceback

            traceback.print_exc()
            print("HARNESS-ERROR the check itself crashed (see the traceback above): no verdict", file=sys.stderr)
            rc = 2
    try:
        from dsim import cli as _cli

        _cli.cleanup_scratch()
    except BaseException:  # noqa: BLE001
        pass
    sys.stdout.flush()
    sys.stderr.flush()
    os._exit(rc if isinstance(rc, int) else 0)
