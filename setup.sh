#!/bin/sh
# Offline setup: verifies the environment and warms the source-keyed numba cache.
cd "$(dirname "$0")" || exit 2
export NUMBA_THREADING_LAYER=workqueue NUMBA_NUM_THREADS=1 PYTHONHASHSEED=0 PYTHONWARNINGS=ignore
exec /venv/bin/python -W ignore - <<'PY'
import os, sys
sys.path.insert(0, os.getcwd())
from dsim import boot
boot.pin_env()
sk = boot.boot()
boot.numba_seed(1)
assert os.access("/dev/shm", os.W_OK), "/dev/shm not writable"
import numba
assert numba.config.THREADING_LAYER == "workqueue"
print("setup ok: sketchnu from", sk.sketchnu.__file__, "tree", boot.TREE_HASH, f"import {sk.import_s:.1f}s")
PY
